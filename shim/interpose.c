/* LD_PRELOAD interposer for gen-sim: makes the per-process hash seed (the
 * bytes std's RandomState and any other getrandom consumer receives) and the
 * wall clock functions of environment variables, so that one VERIF_SEED is
 * one exactly repeatable execution of the code generator.
 *
 *   VERIF_HASH_SEED=<u64>   bytes returned by getrandom()/getentropy()
 *   VERIF_CLOCK=<seconds>   CLOCK_REALTIME / time() / gettimeofday()
 *
 * Without the variables the real functions are used. */
#define _GNU_SOURCE
#include <dlfcn.h>
#include <errno.h>
#include <stdint.h>
#include <stdlib.h>
#include <string.h>
#include <sys/time.h>
#include <sys/types.h>
#include <time.h>
#include <unistd.h>

static uint64_t state;
static int have_seed = -1;
static int have_clock = -1;
static time_t clock_s;

static void init(void) {
    if (have_seed >= 0) return;
    const char *s = getenv("VERIF_HASH_SEED");
    if (s) { state = strtoull(s, 0, 10) ^ 0x9E3779B97F4A7C15ull; have_seed = 1; } else have_seed = 0;
    const char *c = getenv("VERIF_CLOCK");
    if (c) { clock_s = (time_t)strtoll(c, 0, 10); have_clock = 1; } else have_clock = 0;
}

static uint64_t next(void) {
    state += 0x9E3779B97F4A7C15ull;
    uint64_t z = state;
    z = (z ^ (z >> 30)) * 0xBF58476D1CE4E5B9ull;
    z = (z ^ (z >> 27)) * 0x94D049BB133111EBull;
    return z ^ (z >> 31);
}

static void fill(void *buf, size_t len) {
    unsigned char *p = buf;
    while (len) {
        uint64_t v = next();
        size_t n = len < 8 ? len : 8;
        memcpy(p, &v, n);
        p += n; len -= n;
    }
}

ssize_t getrandom(void *buf, size_t buflen, unsigned int flags) {
    init();
    if (!have_seed) {
        ssize_t (*real)(void *, size_t, unsigned int) = dlsym(RTLD_NEXT, "getrandom");
        if (real) return real(buf, buflen, flags);
        errno = ENOSYS; return -1;
    }
    fill(buf, buflen);
    return (ssize_t)buflen;
}

int getentropy(void *buf, size_t len) {
    init();
    if (!have_seed) {
        int (*real)(void *, size_t) = dlsym(RTLD_NEXT, "getentropy");
        if (real) return real(buf, len);
        errno = ENOSYS; return -1;
    }
    fill(buf, len);
    return 0;
}

int clock_gettime(clockid_t id, struct timespec *ts) {
    init();
    if (have_clock && (id == CLOCK_REALTIME || id == CLOCK_REALTIME_COARSE)) {
        ts->tv_sec = clock_s; ts->tv_nsec = 123456789; return 0;
    }
    int (*real)(clockid_t, struct timespec *) = dlsym(RTLD_NEXT, "clock_gettime");
    return real(id, ts);
}

time_t time(time_t *t) {
    init();
    if (have_clock) { if (t) *t = clock_s; return clock_s; }
    time_t (*real)(time_t *) = dlsym(RTLD_NEXT, "time");
    return real(t);
}

int gettimeofday(struct timeval *tv, void *tz) {
    init();
    if (have_clock) { if (tv) { tv->tv_sec = clock_s; tv->tv_usec = 123456; } return 0; }
    int (*real)(struct timeval *, void *) = dlsym(RTLD_NEXT, "gettimeofday");
    return real(tv, tz);
}
