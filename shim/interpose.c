/* LD_PRELOAD interposer for gen-sim: makes the per-process hash seed (the
 * bytes std's RandomState and any other getrandom consumer receives) and the
 * wall clock functions of environment variables, so that one VERIF_SEED is
 * one exactly repeatable execution of the code generator.
 *
 *   VERIF_HASH_SEED=<u64>   bytes returned by getrandom()/getentropy()
 *   VERIF_CLOCK=<seconds>   CLOCK_REALTIME / time() / gettimeofday()
 *   VERIF_WRITE_FAULT=<kind>:<k>   the k-th write()/writev() to a regular file (k >= 1):
 *        enospc  fails with ENOSPC (disk full), and so does every later one
 *        eio     fails once with EIO
 *        eintr   fails once with EINTR (must be retried by the caller)
 *        short   writes only the first half of the buffer (legal; the caller must continue)
 *   VERIF_FAULT_LOG=<path>  a line is appended whenever a write fault fires
 *
 * Without the variables the real functions are used. */
#define _GNU_SOURCE
#include <dlfcn.h>
#include <errno.h>
#include <stdint.h>
#include <stdlib.h>
#include <string.h>
#include <fcntl.h>
#include <stdio.h>
#include <sys/stat.h>
#include <sys/time.h>
#include <sys/uio.h>
#include <sys/types.h>
#include <time.h>
#include <unistd.h>

static uint64_t state;
static int have_seed = -1;
static int have_clock = -1;
static time_t clock_s;

static void init(void) {
    if (have_seed >= 0) return;
    const char *s = getenv("VERIF_HASH_SEED");
    if (s) { state = strtoull(s, 0, 10) ^ 0x9E3779B97F4A7C15ull; have_seed = 1; } else have_seed = 0;
    const char *c = getenv("VERIF_CLOCK");
    if (c) { clock_s = (time_t)strtoll(c, 0, 10); have_clock = 1; } else have_clock = 0;
}

static uint64_t next(void) {
    state += 0x9E3779B97F4A7C15ull;
    uint64_t z = state;
    z = (z ^ (z >> 30)) * 0xBF58476D1CE4E5B9ull;
    z = (z ^ (z >> 27)) * 0x94D049BB133111EBull;
    return z ^ (z >> 31);
}

static void fill(void *buf, size_t len) {
    unsigned char *p = buf;
    while (len) {
        uint64_t v = next();
        size_t n = len < 8 ? len : 8;
        memcpy(p, &v, n);
        p += n; len -= n;
    }
}

ssize_t getrandom(void *buf, size_t buflen, unsigned int flags) {
    init();
    if (!have_seed) {
        ssize_t (*real)(void *, size_t, unsigned int) = dlsym(RTLD_NEXT, "getrandom");
        if (real) return real(buf, buflen, flags);
        errno = ENOSYS; return -1;
    }
    fill(buf, buflen);
    return (ssize_t)buflen;
}

int getentropy(void *buf, size_t len) {
    init();
    if (!have_seed) {
        int (*real)(void *, size_t) = dlsym(RTLD_NEXT, "getentropy");
        if (real) return real(buf, len);
        errno = ENOSYS; return -1;
    }
    fill(buf, len);
    return 0;
}

int clock_gettime(clockid_t id, struct timespec *ts) {
    init();
    if (have_clock && (id == CLOCK_REALTIME || id == CLOCK_REALTIME_COARSE)) {
        ts->tv_sec = clock_s; ts->tv_nsec = 123456789; return 0;
    }
    int (*real)(clockid_t, struct timespec *) = dlsym(RTLD_NEXT, "clock_gettime");
    return real(id, ts);
}

time_t time(time_t *t) {
    init();
    if (have_clock) { if (t) *t = clock_s; return clock_s; }
    time_t (*real)(time_t *) = dlsym(RTLD_NEXT, "time");
    return real(t);
}

int gettimeofday(struct timeval *tv, void *tz) {
    init();
    if (have_clock) { if (tv) { tv->tv_sec = clock_s; tv->tv_usec = 123456; } return 0; }
    int (*real)(struct timeval *, void *) = dlsym(RTLD_NEXT, "gettimeofday");
    return real(tv, tz);
}


/* ---- write faults on regular files ---------------------------------------------------------- */

static int wf_kind = -1; /* -1 unread, 0 none, 1 enospc, 2 eio, 3 eintr, 4 short */
static long wf_at = 0;
static long wf_count = 0;

static void wf_init(void) {
    if (wf_kind >= 0) return;
    wf_kind = 0;
    const char *s = getenv("VERIF_WRITE_FAULT");
    if (!s) return;
    const char *colon = strchr(s, ':');
    if (!colon) return;
    wf_at = strtol(colon + 1, 0, 10);
    if (wf_at < 1) return;
    if (!strncmp(s, "enospc", 6)) wf_kind = 1;
    else if (!strncmp(s, "eio", 3)) wf_kind = 2;
    else if (!strncmp(s, "eintr", 5)) wf_kind = 3;
    else if (!strncmp(s, "short", 5)) wf_kind = 4;
}

static void wf_log(const char *what, int fd, size_t len) {
    const char *p = getenv("VERIF_FAULT_LOG");
    if (!p) return;
    int (*real_open)(const char *, int, ...) = dlsym(RTLD_NEXT, "open");
    ssize_t (*real_write)(int, const void *, size_t) = dlsym(RTLD_NEXT, "write");
    int lfd = real_open(p, O_WRONLY | O_CREAT | O_APPEND, 0644);
    if (lfd < 0) return;
    char line[128];
    int n = snprintf(line, sizeof line, "%s write#%ld fd=%d len=%zu\n", what, wf_count, fd, len);
    if (n > 0) real_write(lfd, line, (size_t)n);
    close(lfd);
}

/* 0: pass through; 1: fail with errno set; 2: shorten to *len */
static int wf_decide(int fd, size_t *len) {
    wf_init();
    if (!wf_kind || fd <= 2 || *len == 0) return 0;
    struct stat st;
    if (fstat(fd, &st) != 0 || !S_ISREG(st.st_mode)) return 0;
    wf_count++;
    switch (wf_kind) {
    case 1:
        if (wf_count >= wf_at) { wf_log("enospc", fd, *len); errno = ENOSPC; return 1; }
        return 0;
    case 2:
        if (wf_count == wf_at) { wf_log("eio", fd, *len); errno = EIO; return 1; }
        return 0;
    case 3:
        if (wf_count == wf_at) { wf_log("eintr", fd, *len); errno = EINTR; return 1; }
        return 0;
    case 4:
        if (wf_count == wf_at && *len > 1) { wf_log("short", fd, *len); *len = *len / 2; return 2; }
        return 0;
    }
    return 0;
}

ssize_t write(int fd, const void *buf, size_t len) {
    ssize_t (*real)(int, const void *, size_t) = dlsym(RTLD_NEXT, "write");
    size_t n = len;
    int d = wf_decide(fd, &n);
    if (d == 1) return -1;
    return real(fd, buf, n);
}

ssize_t writev(int fd, const struct iovec *iov, int cnt) {
    ssize_t (*real)(int, const struct iovec *, int) = dlsym(RTLD_NEXT, "writev");
    size_t total = 0;
    for (int i = 0; i < cnt; i++) total += iov[i].iov_len;
    size_t n = total;
    int d = wf_decide(fd, &n);
    if (d == 1) return -1;
    if (d == 2 && cnt > 0) {
        /* a short count: only (part of) the first buffer */
        ssize_t (*real_write)(int, const void *, size_t) = dlsym(RTLD_NEXT, "write");
        size_t k = iov[0].iov_len < n ? iov[0].iov_len : n;
        if (k == 0) k = iov[0].iov_len;
        return real_write(fd, iov[0].iov_base, k);
    }
    return real(fd, iov, cnt);
}
