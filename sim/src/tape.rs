//! The choice tape: the single source of every decision in a simulated run.
//!
//! `Tape::from_seed` draws from SplitMix64 and records every draw; `Tape::replay`
//! substitutes a recorded tape (values are reduced modulo the requested bound and
//! reads past the end return 0, the simplest choice).

#[derive(Clone)]
pub struct SplitMix64(pub u64);

impl SplitMix64 {
    #[inline]
    pub fn next(&mut self) -> u64 {
        self.0 = self.0.wrapping_add(0x9E37_79B9_7F4A_7C15);
        let mut z = self.0;
        z = (z ^ (z >> 30)).wrapping_mul(0xBF58_476D_1CE4_E5B9);
        z = (z ^ (z >> 27)).wrapping_mul(0x94D0_49BB_1331_11EB);
        z ^ (z >> 31)
    }
}

pub fn mix(a: u64, b: u64, c: u64) -> u64 {
    let mut s = SplitMix64(a ^ 0x5851_F42D_4C95_7F2D);
    let x = s.next() ^ b.wrapping_mul(0xD6E8_FEB8_6659_FD93);
    let mut s = SplitMix64(x);
    let y = s.next() ^ c.wrapping_mul(0xA076_1D64_78BD_642F);
    SplitMix64(y).next()
}

pub struct Tape {
    rng: SplitMix64,
    replay: Option<Vec<u64>>,
    pos: usize,
    pub rec: Vec<u64>,
    /// hash of the sequence of bounds asked for: two runs whose decisions were the same questions
    /// in the same order have the same shape
    pub shape: u64,
}

impl Tape {
    pub fn from_seed(seed: u64) -> Tape {
        Tape {
            rng: SplitMix64(seed),
            replay: None,
            pos: 0,
            rec: Vec::with_capacity(256),
            shape: 0xcbf29ce484222325,
        }
    }

    pub fn replay(tape: Vec<u64>) -> Tape {
        Tape {
            rng: SplitMix64(0),
            replay: Some(tape),
            pos: 0,
            rec: Vec::with_capacity(256),
            shape: 0xcbf29ce484222325,
        }
    }

    /// Uniform draw in `0..n` (`n >= 1`). `0` is always the simplest choice.
    #[inline]
    pub fn draw(&mut self, n: u64) -> u64 {
        debug_assert!(n >= 1);
        let v = match &self.replay {
            Some(t) => {
                let v = t.get(self.pos).copied().unwrap_or(0);
                if n == 0 {
                    0
                } else {
                    v % n
                }
            }
            None => {
                if n <= 1 {
                    0
                } else {
                    // multiply-shift; bias is irrelevant here
                    ((self.rng.next() as u128 * n as u128) >> 64) as u64
                }
            }
        };
        self.pos += 1;
        self.rec.push(v);
        self.shape = (self.shape ^ n).wrapping_mul(0x100000001b3);
        v
    }

    /// Folds a milestone of the run into `shape` without drawing: two runs that asked the same
    /// questions at different milestones are not the same run.
    pub fn mark(&mut self, tag: u64) {
        self.shape = (self.shape ^ tag.wrapping_mul(0x9E3779B97F4A7C15) ^ 0x5555).wrapping_mul(0x100000001b3);
    }

    /// Full 64-bit draw (for bit patterns).
    pub fn bits(&mut self) -> u64 {
        let v = match &self.replay {
            Some(t) => t.get(self.pos).copied().unwrap_or(0),
            None => self.rng.next(),
        };
        self.pos += 1;
        self.rec.push(v);
        self.shape = (self.shape ^ u64::MAX).wrapping_mul(0x100000001b3);
        v
    }

    /// True with probability num/den; false is the simple choice.
    #[inline]
    pub fn chance(&mut self, num: u64, den: u64) -> bool {
        // arranged so that draw()==0 means "false"
        let v = self.draw(den);
        v >= den - num
    }

    #[inline]
    pub fn range(&mut self, lo: u64, hi_incl: u64) -> u64 {
        lo + self.draw(hi_incl - lo + 1)
    }

    pub fn pick<'a, T>(&mut self, xs: &'a [T]) -> &'a T {
        &xs[self.draw(xs.len() as u64) as usize]
    }

    /// Small-biased size: geometric-ish in 0..=max.
    pub fn size(&mut self, max: u64) -> u64 {
        if max == 0 {
            return 0;
        }
        match self.draw(8) {
            0 => 0,
            1 | 2 => self.draw(2.min(max) + 1),
            3 | 4 | 5 => self.draw(5.min(max) + 1),
            6 => self.draw(16.min(max) + 1),
            _ => self.draw(max + 1),
        }
    }

    pub fn consumed(&self) -> usize {
        self.pos
    }
}

/// FNV-1a 64 for digests (stable across processes, unlike std's hasher).
#[derive(Clone, Copy)]
pub struct Fnv(pub u64);

impl Default for Fnv {
    fn default() -> Self {
        Fnv(0xcbf2_9ce4_8422_2325)
    }
}

impl Fnv {
    #[inline]
    pub fn write(&mut self, bytes: &[u8]) {
        for b in bytes {
            self.0 ^= *b as u64;
            self.0 = self.0.wrapping_mul(0x0000_0100_0000_01b3);
        }
    }
    #[inline]
    pub fn write_u64(&mut self, v: u64) {
        self.write(&v.to_le_bytes());
    }
    pub fn write_str(&mut self, s: &str) {
        self.write(s.as_bytes());
        self.write(&[0xff]);
    }
}

pub fn fnv_str(s: &str) -> u64 {
    let mut f = Fnv::default();
    f.write_str(s);
    f.0
}
