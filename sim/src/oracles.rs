//! Oracles over the recorded history of a wire-sim run.  Every monitor runs on
//! every run; each property's check reports only its own violation kinds.

use crate::ctx::Ctx;
use crate::faults::{Expect, Fired, FK};
use crate::glue::{ArgVal, DynVal, GenKnobs, Handler, Record};
use crate::glue_gen;
use crate::ir::{ir, ArgMeta, Def, EpMeta, PKind, Prim, RetKind, Seg, Ty};
use crate::judge::{self, Enc};
use crate::transport::{Exchange, ServerOut};
use crate::wire::{CallRec, CallResult};
use serde_json::Value;

const DEFAULT_LIMIT: usize = 50 * 1024 * 1024;

fn is_param_fault(k: FK) -> bool {
    matches!(
        k,
        FK::ParamDrop | FK::ParamDup | FK::ParamCorrupt | FK::ParamOpaque | FK::AuthDrop | FK::AuthCorrupt
    )
}

fn damaging(f: &[Fired]) -> bool {
    f.iter().any(|x| x.expect != Expect::Transparent)
}

fn kinds(f: &[Fired]) -> String {
    let mut v: Vec<&str> = f.iter().filter(|x| !matches!(x.kind, FK::Rechunk | FK::Timing)).map(|x| x.kind.name()).collect();
    v.dedup();
    v.join("+")
}

fn panic_class(msg: &str) -> String {
    if let Some(i) = msg.find("InvalidUri(") {
        let rest = &msg[i..];
        let end = rest.find(')').map(|e| e + 1).unwrap_or(rest.len());
        return rest[..end].to_string();
    }
    let m = msg.split(" @ ").next().unwrap_or(msg);
    let loc = msg.rsplit(" @ ").next().unwrap_or("");
    let file = loc.rsplit('/').next().unwrap_or(loc);
    let file = file.split(':').next().unwrap_or(file);
    let mut s: String = m.chars().take(40).collect();
    s.push('@');
    s.push_str(file);
    s
}

/// header arguments whose text HTTP cannot carry (not visible ASCII)
fn undeliverable_headers(call: &CallRec, meta: &EpMeta) -> Vec<String> {
    let off = if matches!(meta.auth, crate::ir::Auth::None) { 0 } else { 1 };
    let mut v = Vec::new();
    for (i, a) in meta.args.iter().enumerate() {
        if a.kind == PKind::Header {
            let ok = match call.args[i + off].val.json_value() {
                Value::String(s) => s.bytes().all(|b| (0x20..0x7f).contains(&b) || b == b'\t'),
                _ => true,
            };
            if !ok {
                v.push(a.name.clone());
            }
        }
    }
    v
}

fn header_deliverable(call: &CallRec, meta: &EpMeta) -> bool {
    undeliverable_headers(call, meta).is_empty() && !huge_uri(call, meta)
}

/// path/query text so long that the encoded URI may exceed what `http::Uri` can hold
/// (65534 bytes); building then reports an error, which the statement allows
fn huge_uri(call: &CallRec, meta: &EpMeta) -> bool {
    fn text_len(v: &Value) -> usize {
        match v {
            Value::String(s) => s.len(),
            Value::Array(a) => a.iter().map(text_len).sum(),
            _ => 24,
        }
    }
    let off = if matches!(meta.auth, crate::ir::Auth::None) { 0 } else { 1 };
    let total: usize = meta
        .args
        .iter()
        .enumerate()
        .filter(|(_, a)| matches!(a.kind, PKind::Path | PKind::Query))
        .map(|(i, _)| text_len(&call.args[i + off].val.json_value()))
        .sum();
    total > 16_000
}

/// the known macro-client case: ConjureResponseDeserializer on a 204 for an optional / collection return
fn macro_204(call: &CallRec, exchanges: &[Exchange], ci: usize) -> bool {
    call.client_kind == crate::mirror::ClientKind::Macro
        && exchanges.iter().any(|e| e.call as usize == ci && matches!(&e.resp_wire, Some(w) if w.status == 204))
        && matches!(ir().eps[call.ep].ret_kind_name(), "optional" | "collection")
}

fn within_limit(exchanges: &[Exchange], call: usize, meta: &EpMeta) -> bool {
    match meta.limit {
        None => true,
        Some(l) => exchanges
            .iter()
            .filter(|e| e.call as usize == call)
            .all(|e| e.wire.body.as_ref().map(|b| b.len() <= l).unwrap_or(true)),
    }
}

fn args_equal(call: &[ArgVal], rec: &[(&'static str, Box<dyn DynVal>)]) -> Option<String> {
    if call.len() != rec.len() {
        return Some(format!("arity {} vs {}", call.len(), rec.len()));
    }
    for (a, (n, v)) in call.iter().zip(rec) {
        if !a.val.eq_dyn(&**v) {
            return Some(format!("arg {}: client gave {} handler saw {}", n, a.val.render(), v.render()));
        }
    }
    None
}

pub fn evaluate(ctx: &Ctx, knobs: &GenKnobs, calls: &[CallRec], exchanges: &[Exchange], handler: &Handler, is_async: bool) {
    let core = handler.core.lock().unwrap();
    let records = &core.records;
    signature(ctx, calls, exchanges);
    panics(ctx, calls, exchanges);
    if records.iter().any(|r| r.refused) {
        // the handler was scripted to refuse: the call fails by design; what remains to be
        // checked is that nothing non-safe shows up in a safe channel
        c09(ctx, knobs, calls, exchanges, true);
        return;
    }
    // blocking runs execute their calls strictly one after the other
    let sequential = !is_async || calls.len() == 1;
    if exchanges.iter().any(|e| e.registered != (true, true)) {
        // a runtime built with one encoding only refuses ordinary requests and cannot answer in
        // the encoding an ordinary client asks for: only the request-body oracle knows that
        c07(ctx, calls, exchanges, records);
        c06(ctx, calls, exchanges, records, sequential);
        return;
    }
    c04(ctx, calls, exchanges, records);
    c07(ctx, calls, exchanges, records);
    c09(ctx, knobs, calls, exchanges, false);
    c19(ctx, calls, exchanges);
    c06(ctx, calls, exchanges, records, sequential);
    c18(ctx, calls, exchanges, records, sequential);
}

fn signature(ctx: &Ctx, calls: &[CallRec], exchanges: &[Exchange]) {
    let mut nontrivial = false;
    for ex in exchanges {
        for f in ex.req_fired.iter().chain(&ex.resp_fired) {
            ctx.sig(f.kind.name());
            nontrivial = true;
        }
        let class = |n: usize| match n {
            0 => "c0",
            1 => "c1",
            2 => "c2",
            _ => "c3+",
        };
        ctx.sig(class(ex.req_plan.chunk_count()));
        ctx.sig(class(ex.resp_plan.chunk_count()));
        if ex.req_plan.chunk_count() >= 2 || ex.resp_plan.chunk_count() >= 2 {
            nontrivial = true;
        }
        match ex.req_plan.chunk_count() {
            0 => ctx.count("probe.read_body_0_chunks"),
            1 => ctx.count("probe.read_body_1_chunk"),
            _ => ctx.count("probe.read_body_2plus_chunks"),
        }
        ctx.sig(match &ex.server {
            ServerOut::Ok(w) if w.status == 204 => {
                ctx.count("probe.status_204");
                "s204"
            }
            ServerOut::Ok(w) => {
                if w.header("content-type") == Some(b"application/x-jackson-smile") {
                    ctx.count("probe.smile_response");
                }
                "s200"
            }
            ServerOut::Err(e) => {
                if e.marker.is_some() {
                    "smarker"
                } else if e.code == "InvalidArgument" {
                    "sIA"
                } else if e.code == "PermissionDenied" {
                    "sPD"
                } else {
                    "serr"
                }
            }
            ServerOut::Panic(_) => "spanic",
            ServerOut::NoRoute => "snoroute",
            ServerOut::NotSent => "snotsent",
        });
    }
    for c in calls {
        ctx.sig(match &c.result {
            CallResult::Ok(_) => "ok",
            CallResult::Err(_) => "err",
            CallResult::Panic(_) => "panic",
            CallResult::Cancelled => {
                nontrivial = true;
                "cancelled"
            }
            CallResult::NotRun => "notrun",
        });
    }
    if calls.len() > 1 {
        ctx.sig("concurrent");
        ctx.count("fault.concurrent_calls_run");
        nontrivial = true;
    }
    if nontrivial {
        ctx.mark_nontrivial();
    }
}

fn panics(ctx: &Ctx, calls: &[CallRec], exchanges: &[Exchange]) {
    for ex in exchanges {
        if let ServerOut::Panic(m) = &ex.server {
            let kind = format!("server_panic:{}", panic_class(m));
            for p in ["C04", "C06", "C19"] {
                ctx.violation(p, kind.clone(), format!("endpoint handling panicked: {} (faults: {})", m, kinds(&ex.req_fired)));
            }
        }
    }
    for (i, c) in calls.iter().enumerate() {
        if let CallResult::Panic(m) = &c.result {
            let has_ex = exchanges.iter().any(|e| e.call as usize == i);
            let kind = format!("client_panic:{}", panic_class(m));
            let meta = &ir().eps[c.ep];
            if has_ex {
                ctx.violation("C18", kind.clone(), format!("{}.{}: client panicked after the exchange: {}", meta.service, meta.name, m));
            } else {
                ctx.violation("C07", kind.clone(), format!("{}.{}: client panicked while building the request: {}", meta.service, meta.name, m));
            }
            ctx.violation("C04", kind, format!("{}.{}: client panicked: {}", meta.service, meta.name, m));
        }
    }
}

// ---------------------------------------------------------------------- C04 --

fn c04(ctx: &Ctx, calls: &[CallRec], exchanges: &[Exchange], records: &[Record]) {
    if exchanges.iter().any(|e| damaging(&e.req_fired) || damaging(&e.resp_fired)) {
        return;
    }
    ctx.count("probe.c04_evaluated");
    let mut used = vec![false; records.len()];
    let mut matched: Vec<Option<usize>> = vec![None; calls.len()];
    // exact matches first (injective); completed calls before cancelled ones, and a
    // record whose returned value is the one the client got before any other
    for pass in 0..3 {
        for (ci, call) in calls.iter().enumerate() {
            if matched[ci].is_some() {
                continue;
            }
            let cancelled = matches!(call.result, CallResult::Cancelled);
            if (pass < 2) == cancelled {
                continue;
            }
            for (ri, r) in records.iter().enumerate() {
                if used[ri] || r.ep != call.ep || args_equal(&call.args, &r.args).is_some() {
                    continue;
                }
                if pass == 0 {
                    let same_ret = match (&call.result, &r.ret) {
                        (CallResult::Ok(v), Some(ret)) => v.eq_dyn(&**ret),
                        _ => false,
                    };
                    if !same_ret {
                        continue;
                    }
                }
                used[ri] = true;
                matched[ci] = Some(ri);
                break;
            }
        }
    }
    for (ci, call) in calls.iter().enumerate() {
        let meta = &ir().eps[call.ep];
        let who = format!("{}.{}", meta.service, meta.name);
        let cancelled = matches!(call.result, CallResult::Cancelled);
        match matched[ci] {
            Some(ri) => {
                let r = &records[ri];
                match &call.result {
                    CallResult::Ok(v) => match &r.ret {
                        Some(ret) => {
                            if !v.eq_dyn(&**ret) {
                                ctx.violation(
                                    "C04",
                                    format!("client_result_differs:{}", meta.ret_kind_name()),
                                    format!("{}: handler returned {} but the client call returned {}", who, ret.render(), v.render()),
                                );
                            } else if calls.len() > 1 {
                                ctx.count("probe.c04_concurrent_call_matched");
                            }
                        }
                        None => ctx.violation("C04", "handler_invoked_twice", format!("{}: handler ran without a scripted return (extra invocation)", who)),
                    },
                    CallResult::Err(e) if macro_204(call, exchanges, ci) => ctx.violation(
                        "C04",
                        format!("macro_client_204:{}", meta.ret_kind_name()),
                        format!("{}: macro-derived client with ConjureResponseDeserializer: the generated server answered 204 for the empty value {:?} and the client failed: {}", who, r.ret.as_ref().map(|x| x.render()), e.cause),
                    ),
                    CallResult::Err(e) => ctx.violation(
                        "C04",
                        format!("client_error_after_handler:{}", meta.ret_kind_name()),
                        format!("{}: handler ran with equal arguments and returned {:?} but the client call failed: {} / {}", who, r.ret.as_ref().map(|x| x.render()), e.code, e.cause),
                    ),
                    CallResult::Panic(_) | CallResult::Cancelled | CallResult::NotRun => {}
                }
            }
            None => {
                if cancelled {
                    continue;
                }
                let deliverable = header_deliverable(call, meta) && within_limit(exchanges, ci, meta);
                // was the handler reached with other arguments?
                let other = records
                    .iter()
                    .enumerate()
                    .find(|(ri, r)| !used[*ri] && r.ep == call.ep);
                if let Some((ri, r)) = other {
                    used[ri] = true;
                    let diff = args_equal(&call.args, &r.args).unwrap_or_default();
                    let argname = diff.split(':').next().unwrap_or("").replace("arg ", "");
                    let pk = meta
                        .args
                        .iter()
                        .find(|a| a.name == argname)
                        .map(|a| format!("{:?}", a.kind))
                        .unwrap_or_else(|| "auth".into());
                    ctx.violation("C04", format!("handler_args_differ:{}", pk), format!("{}: {}", who, diff));
                    continue;
                }
                match &call.result {
                    CallResult::Ok(v) => ctx.violation("C04", "client_ok_without_handler", format!("{}: client returned {} but the handler never ran", who, v.render())),
                    CallResult::Err(e) => {
                        if deliverable {
                            ctx.violation(
                                "C04",
                                "handler_not_invoked",
                                format!("{}: a valid call failed before the handler: {} {} / {} / param={:?}", who, e.code, e.name, e.cause, e.safe_params),
                            );
                        } else {
                            ctx.count("probe.c04_undeliverable_header_refused");
                        }
                    }
                    _ => {}
                }
            }
        }
    }
    // leftovers: invocations no call accounts for
    for (ri, r) in records.iter().enumerate() {
        if used[ri] {
            continue;
        }
        let meta = &ir().eps[r.ep];
        // a cancelled call may have reached the handler
        let by_cancelled = calls
            .iter()
            .any(|c| matches!(c.result, CallResult::Cancelled) && c.ep == r.ep && args_equal(&c.args, &r.args).is_none());
        if !by_cancelled {
            ctx.violation(
                "C04",
                "handler_extra_invocation",
                format!("{}.{}: handler invoked with arguments no client call supplied: {:?}", meta.service, meta.name, r.args.iter().map(|(n, v)| format!("{}={}", n, v.render())).collect::<Vec<_>>()),
            );
        }
    }
}

impl EpMeta {
    pub fn ret_kind_name(&self) -> &'static str {
        match self.ret_kind() {
            RetKind::None => "unit",
            RetKind::Binary => "binary",
            RetKind::OptBinary => "optional_binary",
            RetKind::Json => match self.returns.as_ref().map(|r| ir().dealias(r)) {
                Some(Ty::Opt(_)) => "optional",
                Some(Ty::List(_)) | Some(Ty::Set(_)) | Some(Ty::Map(_, _)) => "collection",
                _ => "value",
            },
        }
    }
}

// ---------------------------------------------------------------------- C07 --

fn arg_of<'a>(call: &'a CallRec, meta: &EpMeta, name: &str) -> Option<&'a ArgVal> {
    let off = if matches!(meta.auth, crate::ir::Auth::None) { 0 } else { 1 };
    meta.args.iter().position(|a| a.name == name).map(|i| &call.args[i + off])
}

fn c07(ctx: &Ctx, calls: &[CallRec], exchanges: &[Exchange], records: &[Record]) {
    for ex in exchanges {
        let Some(call) = calls.get(ex.call as usize) else { continue };
        let meta = &ir().eps[call.ep];
        let who = format!("{}.{}", meta.service, meta.name);
        let uri = &ex.sent.uri;
        ctx.count("probe.c07_uri_checked");
        if uri.len() > 8000 {
            ctx.count("probe.c07_long_uri");
        }
        if uri.contains('#') {
            ctx.violation("C07", "fragment_in_uri", format!("{}: {}", who, clip(uri)));
            continue;
        }
        if uri.parse::<http::Uri>().is_err() {
            ctx.violation("C07", "uri_does_not_reparse", format!("{}: {}", who, clip(uri)));
            continue;
        }
        let (path, query) = match uri.split_once('?') {
            Some((p, q)) => (p, Some(q)),
            None => (uri.as_str(), None),
        };
        let segs: Vec<&str> = path.split('/').skip(1).collect();
        // one segment per literal and per supplied value (a list-valued macro path parameter: one per item)
        let expected_segs: usize = meta
            .segs
            .iter()
            .map(|t| match t {
                Seg::Lit(_) => 1,
                Seg::Param(name) => arg_of(call, meta, name).map(|a| a.val.plain_count()).unwrap_or(1),
            })
            .sum();
        if segs.len() != expected_segs {
            ctx.violation(
                "C07",
                "path_segment_count",
                format!("{}: template {} prescribes {} segments for these arguments, URI path has {}: {}", who, meta.template, expected_segs, segs.len(), clip(path)),
            );
            continue;
        }
        let mut seg_iter = segs.iter();
        for tmpl in &meta.segs {
            let n = match tmpl {
                Seg::Lit(_) => 1,
                Seg::Param(name) => arg_of(call, meta, name).map(|a| a.val.plain_count()).unwrap_or(1),
            };
            if n != 1 {
                // multi-segment parameter: every item escaped, all items decode back in order
                let Seg::Param(name) = tmpl else { continue };
                let Some(arg) = arg_of(call, meta, name) else { continue };
                let mut decoded = Vec::new();
                let mut ok = true;
                for _ in 0..n {
                    let seg = seg_iter.next().unwrap();
                    if let Some(b) = seg.bytes().find(|b| !judge::structural_safe_path_byte(*b)) {
                        ctx.violation("C07", format!("unescaped_byte_in_path:{:#04x}", b), format!("{}: parameter {} rendered as {:?}", who, name, clip(seg)));
                        ok = false;
                    }
                    match judge::pct_decode(seg) {
                        Some(d) => decoded.push(d),
                        None => {
                            ctx.violation("C07", "malformed_escape_in_path", format!("{}: parameter {} rendered as {:?}", who, name, clip(seg)));
                            ok = false;
                        }
                    }
                }
                if ok && !arg.val.plain_ok(&decoded) {
                    ctx.violation("C07", "path_value_does_not_decode_back", format!("{}: parameter {} = {} decodes to {:?}", who, name, arg.val.render(), decoded.iter().map(|d| clip(d)).collect::<Vec<_>>()));
                }
                continue;
            }
            let seg = seg_iter.next().unwrap();
            match tmpl {
                Seg::Lit(l) => {
                    if seg != l {
                        ctx.violation("C07", "literal_segment_altered", format!("{}: expected {:?} got {:?}", who, l, clip(seg)));
                    }
                }
                Seg::Param(name) => {
                    let Some(arg) = arg_of(call, meta, name) else { continue };
                    if let Some(b) = seg.bytes().find(|b| !judge::structural_safe_path_byte(*b)) {
                        ctx.violation("C07", format!("unescaped_byte_in_path:{:#04x}", b), format!("{}: parameter {} rendered as {:?}", who, name, clip(seg)));
                        continue;
                    }
                    match judge::pct_decode(seg) {
                        None => ctx.violation("C07", "malformed_escape_in_path", format!("{}: parameter {} rendered as {:?}", who, name, clip(seg))),
                        Some(d) => {
                            if !arg.val.plain_ok(&[d.clone()]) {
                                ctx.violation(
                                    "C07",
                                    "path_value_does_not_decode_back",
                                    format!("{}: parameter {} = {} rendered as {:?} decodes to {:?}", who, name, arg.val.render(), clip(seg), clip(&d)),
                                );
                            }
                        }
                    }
                }
            }
        }
        // query: exactly one key=value per supplied value, declared keys, declared order
        let mut expected: Vec<(&ArgMeta, usize)> = Vec::new();
        for a in meta.args.iter().filter(|a| a.kind == PKind::Query) {
            if let Some(arg) = arg_of(call, meta, &a.name) {
                expected.push((a, arg.val.plain_count()));
            }
        }
        let total: usize = expected.iter().map(|(_, n)| n).sum();
        let pairs: Vec<&str> = match query {
            None => vec![],
            Some(q) => q.split('&').collect(),
        };
        if pairs.len() != total || (query == Some("") && total == 0) {
            ctx.violation(
                "C07",
                "query_pair_count",
                format!("{}: {} values supplied but the query has {} pairs: {:?}", who, total, pairs.len(), query.map(clip)),
            );
            continue;
        }
        let mut i = 0;
        for (a, n) in expected {
            let mut decoded = Vec::new();
            let mut bad = false;
            for _ in 0..n {
                let pair = pairs[i];
                i += 1;
                let Some((k, v)) = pair.split_once('=') else {
                    ctx.violation("C07", "query_pair_without_equals", format!("{}: {:?}", who, clip(pair)));
                    bad = true;
                    continue;
                };
                if judge::pct_decode(k).as_deref() != Some(a.param_id.as_str()) || k.bytes().any(|b| b == b'&' || b == b'#' || b == b'+') {
                    ctx.violation("C07", "query_key_altered", format!("{}: expected key {:?} got {:?}", who, a.param_id, clip(k)));
                    bad = true;
                    continue;
                }
                if let Some(b) = v.bytes().find(|b| !(b.is_ascii_alphanumeric() || b"-._~!$'()*,;:@/?%".contains(b))) {
                    ctx.violation("C07", format!("unescaped_byte_in_query:{:#04x}", b), format!("{}: parameter {} rendered as {:?}", who, a.name, clip(v)));
                    bad = true;
                    continue;
                }
                match judge::pct_decode(v) {
                    None => {
                        ctx.violation("C07", "malformed_escape_in_query", format!("{}: parameter {} rendered as {:?}", who, a.name, clip(v)));
                        bad = true;
                    }
                    Some(d) => decoded.push(d),
                }
            }
            if !bad {
                if let Some(arg) = arg_of(call, meta, &a.name) {
                    if !arg.val.plain_ok(&decoded) {
                        ctx.violation(
                            "C07",
                            "query_value_does_not_decode_back",
                            format!("{}: parameter {} = {} decodes to {:?}", who, a.name, arg.val.render(), decoded.iter().map(|d| clip(d)).collect::<Vec<_>>()),
                        );
                    }
                }
            }
        }
        // the URI the client built leads to the endpoint it was built for
        if !damaging(&ex.req_fired) && ex.routed != Some(call.ep) && !matches!(ex.server, ServerOut::NotSent) {
            ctx.violation(
                "C07",
                "request_does_not_reach_its_endpoint",
                format!("{}: {} {} is routed to {:?}", who, ex.wire.method, clip(uri), ex.routed.map(|i| format!("{}.{}", ir().eps[i].service, ir().eps[i].name))),
            );
        }
        // decoding the URI on the server side returns the originals - it does not refuse them:
        // nothing was done to this request, so an error naming a path / query argument means the
        // server could not read back what the client wrote
        if !damaging(&ex.req_fired) && ex.routed == Some(call.ep) {
            if let ServerOut::Err(e) = &ex.server {
                let named = e.safe_params.iter().find(|(k, _)| k == "param").map(|(_, v)| v.trim_matches('"').to_string());
                if let Some(a) = meta.args.iter().find(|a| matches!(a.kind, PKind::Path | PKind::Query) && Some(&a.name) == named.as_ref()) {
                    ctx.violation(
                        "C07",
                        format!("server_refused_what_the_client_wrote:{:?}", a.kind),
                        format!("{}: parameter {} = {:?} in {} was refused: {} {:?}", who, a.name, arg_of(call, meta, &a.name).map(|v| v.val.render()), clip(uri), e.code, e.cause),
                    );
                }
            }
        }
        // server-side decoding returns the originals (single undamaged call)
        if calls.len() == 1 && !damaging(&ex.req_fired) {
            if let Some(r) = records.iter().find(|r| r.ep == call.ep) {
                let off = if matches!(meta.auth, crate::ir::Auth::None) { 0 } else { 1 };
                for (i, a) in meta.args.iter().enumerate() {
                    if matches!(a.kind, PKind::Path | PKind::Query) {
                        if let (Some(cv), Some((_, rv))) = (call.args.get(i + off), r.args.get(i + off)) {
                            if !cv.val.eq_dyn(&**rv) {
                                ctx.violation(
                                    "C07",
                                    format!("server_decoded_differs:{:?}", a.kind),
                                    format!("{}: parameter {} sent as {} decoded by the server as {}", who, a.name, cv.val.render(), rv.render()),
                                );
                            }
                        }
                    }
                }
            }
        }
    }
}

fn clip(s: &str) -> String {
    if s.len() <= 200 {
        s.to_string()
    } else {
        let mut cut = 200;
        while !s.is_char_boundary(cut) {
            cut -= 1;
        }
        format!("{}…[{} bytes]", &s[..cut], s.len())
    }
}

// ---------------------------------------------------------------------- C09 --

fn clearly_unsafe(a: &ArgMeta) -> bool {
    match a.safety.as_deref() {
        Some("SAFE") => false,
        Some(_) => true,
        None => {
            if a.legacy_safe {
                return false;
            }
            // undeclared: certainly not safe when an undeclared primitive is reachable
            // without passing an explicit declaration (unions, recursion: C08's business)
            fn leaf_unsafe(t: &Ty, depth: u32) -> bool {
                match t {
                    Ty::Prim(_) => true,
                    Ty::Opt(i) | Ty::List(i) | Ty::Set(i) => leaf_unsafe(i, depth),
                    Ty::Map(k, v) => leaf_unsafe(k, depth) || leaf_unsafe(v, depth),
                    Ty::Ref(n) => match &ir().defs[n] {
                        Def::Alias(i, None) => leaf_unsafe(i, depth),
                        Def::Alias(_, Some(s)) => s != "SAFE",
                        Def::Object(fields) if depth < 3 => fields.iter().any(|(_, f)| leaf_unsafe(f, depth + 1)),
                        _ => false,
                    },
                }
            }
            leaf_unsafe(&a.ty, 0)
        }
    }
}

/// Everything an exchange exposes as safe to log, in a fixed order.
pub fn safe_channels(exchanges: &[Exchange]) -> Vec<(String, String)> {
    let mut v = Vec::new();
    // a bit flip inside a canary yields a byte that depends on the canary (a quote in one run, a
    // letter in the other): what the decoder then does legitimately differs between the twins
    if exchanges.iter().any(|ex| ex.req_fired.iter().chain(&ex.resp_fired).any(|f| f.kind == FK::ByteFlip)) {
        return vec![("not_comparable".into(), String::new())];
    }
    for ex in exchanges {
        if let Some(sp) = &ex.safe_params {
            for (k, val) in sp {
                v.push((format!("safe_params:{}:call{}", k, ex.call), val.clone()));
            }
        }
        if let ServerOut::Err(e) = &ex.server {
            for (k, val) in &e.safe_params {
                v.push((format!("error_safe_param:{}:call{}", k, ex.call), val.clone()));
            }
            v.push((format!("cause_safe_flag:call{}", ex.call), e.cause_safe.to_string()));
            if e.cause_safe {
                v.push((format!("safe_cause:call{}", ex.call), e.cause.clone()));
            }
        }
    }
    v
}

fn c09(ctx: &Ctx, knobs: &GenKnobs, calls: &[CallRec], exchanges: &[Exchange], handler_refused: bool) {
    let canaries = [knobs.alpha.clone(), knobs.digits.to_string(), format!("{:08x}", knobs.hex)];
    for c in calls {
        if let Some((tok, dbg)) = &c.token_debug {
            ctx.count("probe.c09_token_debug_checked");
            if dbg.contains(tok.as_str()) {
                ctx.violation("C09", "token_debug_leak", format!("debug rendering {:?} contains the token", dbg));
            }
        }
    }
    for ex in exchanges {
        let Some(call) = calls.get(ex.call as usize) else { continue };
        let meta = &ir().eps[call.ep];
        let who = format!("{}.{}", meta.service, meta.name);
        let mut channels: Vec<(String, String)> = Vec::new();
        if let Some(sp) = &ex.safe_params {
            for (k, v) in sp {
                channels.push((format!("safe_params:{}", k), format!("{} {}", k, v)));
            }
        }
        if let ServerOut::Err(e) = &ex.server {
            for (k, v) in &e.safe_params {
                channels.push((format!("error_safe_param:{}", k), format!("{} {}", k, v)));
            }
            if e.cause_safe {
                channels.push(("safe_cause".to_string(), e.cause.clone()));
            }
        }
        ctx.count_n("probe.c09_channels_checked", channels.len() as u64);
        for (name, text) in &channels {
            for (ci, c) in canaries.iter().enumerate() {
                if text.contains(c.as_str()) {
                    ctx.violation(
                        "C09",
                        format!("leak:{}", name),
                        format!("{}: canary #{} {:?} of a non-safe argument found in {}: {:?} (faults: {})", who, ci, c, name, clip(text), kinds(&ex.req_fired)),
                    );
                }
            }
        }
        // which names may appear at all
        if let Some(sp) = &ex.safe_params {
            for (k, _) in sp {
                match meta.args.iter().find(|a| &a.name == k) {
                    None => ctx.violation("C09", "safe_params_unknown_name", format!("{}: safe parameter {:?} is not a declared argument name", who, k)),
                    Some(a) => {
                        if clearly_unsafe(a) {
                            ctx.violation("C09", format!("unsafe_arg_in_safe_params:{:?}", a.kind), format!("{}: argument {} is not declared safe but was recorded as a safe parameter", who, k));
                        }
                    }
                }
            }
        }
        // positive half on failure: arguments are decoded in declaration order, so every
        // declared-safe argument before the one the error names has been decoded and recorded
        if let ServerOut::Err(e) = &ex.server {
            let failing = e
                .safe_params
                .iter()
                .find(|(k, _)| k == "param")
                .and_then(|(_, v)| serde_json::from_str::<String>(v).ok())
                .and_then(|name| meta.args.iter().position(|a| a.name == name));
            if let (Some(pos), true) = (failing, ex.routed == Some(call.ep)) {
                let sp = ex.safe_params.clone().unwrap_or_default();
                for a in meta.args[..pos].iter().filter(|a| a.declared_safe()) {
                    // untouched by any fault?
                    if ex.req_fired.iter().any(|f| f.detail.contains(&a.name) || (a.kind == PKind::Body && f.expect != Expect::Transparent && !is_param_fault(f.kind))) {
                        continue;
                    }
                    let Some(arg) = arg_of(call, meta, &a.name) else { continue };
                    ctx.count("probe.c09_safe_arg_expected_on_failure");
                    match sp.iter().find(|(k, _)| k == &a.name) {
                        None => ctx.violation(
                            "C09",
                            format!("safe_arg_missing_after_later_failure:{:?}", a.kind),
                            format!("{}: argument {} is declared safe and was decoded before {} failed, but it is absent from the safe-parameter set {:?}", who, a.name, meta.args[pos].name, sp),
                        ),
                        Some((_, v)) => {
                            let actual: Value = serde_json::from_str(v).unwrap_or(Value::Null);
                            if !json_eq(&actual, &arg.val.json_value()) {
                                ctx.violation("C09", format!("safe_arg_value_differs:{:?}", a.kind), format!("{}: safe parameter {} is {} but the argument was {}", who, a.name, v, arg.val.json_value()));
                            }
                        }
                    }
                }
            }
        }
        // positive half: after successful decoding the declared-safe arguments are all there
        let undamaged = !damaging(&ex.req_fired);
        // ... and a request nothing was done to decodes: every declared-safe argument of a valid,
        // deliverable request must end up recorded, whatever this thread or service handled before
        if undamaged
            && ex.routed == Some(call.ep)
            && !handler_refused
            && !matches!(call.result, CallResult::Cancelled)
            && header_deliverable(call, meta)
            && within_limit(exchanges, ex.call as usize, meta)
            && meta.args.iter().any(|a| a.declared_safe())
        {
            if let ServerOut::Err(e) = &ex.server {
                ctx.violation(
                    "C09",
                    "safe_args_not_recorded:valid_request_refused",
                    format!(
                        "{}: nothing was done to this request, yet the endpoint refused it ({} {:?}) and its declared-safe arguments were not all recorded: {:?}",
                        who, e.code, e.safe_params, ex.safe_params
                    ),
                );
            }
        }
        if undamaged && matches!(ex.server, ServerOut::Ok(_)) && ex.routed == Some(call.ep) {
            let sp = ex.safe_params.clone().unwrap_or_default();
            for a in meta.args.iter().filter(|a| a.declared_safe()) {
                let Some(arg) = arg_of(call, meta, &a.name) else { continue };
                ctx.count("probe.c09_safe_arg_expected");
                match sp.iter().find(|(k, _)| k == &a.name) {
                    None => ctx.violation("C09", format!("safe_arg_missing:{:?}", a.kind), format!("{}: argument {} is declared safe but is absent from the safe-parameter set {:?}", who, a.name, sp)),
                    Some((_, v)) => {
                        let actual: Value = serde_json::from_str(v).unwrap_or(Value::Null);
                        let expected = arg.val.json_value();
                        if !json_eq(&actual, &expected) {
                            ctx.violation("C09", format!("safe_arg_value_differs:{:?}", a.kind), format!("{}: safe parameter {} is {} but the argument was {}", who, a.name, v, expected));
                        }
                    }
                }
            }
        }
    }
}

fn json_eq(a: &Value, b: &Value) -> bool {
    match (a, b) {
        (Value::Number(x), Value::Number(y)) => x.as_f64() == y.as_f64(),
        (Value::Array(x), Value::Array(y)) => x.len() == y.len() && x.iter().zip(y).all(|(p, q)| json_eq(p, q)),
        (Value::Object(x), Value::Object(y)) => x.len() == y.len() && x.iter().all(|(k, v)| y.get(k).map(|w| json_eq(v, w)).unwrap_or(false)),
        _ => a == b,
    }
}

// ---------------------------------------------------------------------- C19 --

fn c19(ctx: &Ctx, calls: &[CallRec], exchanges: &[Exchange]) {
    for ex in exchanges {
        let Some(call) = calls.get(ex.call as usize) else { continue };
        let meta = &ir().eps[call.ep];
        let who = format!("{}.{}", meta.service, meta.name);
        let rejects: Vec<&Fired> = ex.req_fired.iter().filter(|f| matches!(f.expect, Expect::Reject { .. }) && is_param_fault(f.kind)).collect();
        let body_damage = ex.req_fired.iter().any(|f| f.expect != Expect::Transparent && !is_param_fault(f.kind));
        let dont_care = ex.req_fired.iter().any(|f| f.expect == Expect::DontCare);
        let invoked = ex.handler_after > ex.handler_before;
        if !rejects.is_empty() {
            ctx.count("probe.c19_reject_expected");
            let what = rejects.iter().map(|f| f.describe()).collect::<Vec<_>>().join(", ");
            let first = rejects[0];
            let pk = first.detail.split(' ').next().unwrap_or("").to_string();
            if invoked && calls.len() == 1 {
                ctx.violation("C19", format!("handler_invoked_despite:{}:{}", first.kind.name(), pk), format!("{}: {}", who, what));
                continue;
            }
            match &ex.server {
                ServerOut::Err(e) if e.is_service => {
                    let got_param = e
                        .safe_params
                        .iter()
                        .find(|(k, _)| k == "param")
                        .and_then(|(_, v)| serde_json::from_str::<String>(v).ok());
                    let opaque = undeliverable_headers(call, meta);
                    let ok = rejects.iter().any(|f| match &f.expect {
                        Expect::Reject { code, param } => e.code == *code && (param.is_none() || *param == got_param),
                        _ => false,
                    }) || (body_damage && (e.code == "InvalidArgument" || e.marker.is_some()))
                        // a fault the statement is silent about fired too: either refusal is acceptable
                        || (dont_care && (e.code == "InvalidArgument" || e.code == "PermissionDenied"))
                        || (e.code == "InvalidArgument" && got_param.as_ref().map(|p| opaque.contains(p)).unwrap_or(false));
                    if !ok {
                        let code_ok = rejects.iter().any(|f| matches!(&f.expect, Expect::Reject { code, .. } if e.code == *code));
                        if !code_ok {
                            ctx.violation("C19", format!("wrong_code:{}:{}", first.kind.name(), e.code), format!("{}: {} -> error code {} ({})", who, what, e.code, e.name));
                        } else {
                            ctx.violation(
                                "C19",
                                format!("wrong_param:{}", pk),
                                format!("{}: {} -> safe `param` is {:?}; declared argument name expected", who, what, got_param),
                            );
                        }
                    }
                }
                ServerOut::Err(e) => ctx.violation("C19", "non_service_error", format!("{}: {} -> {:?}", who, what, e.cause)),
                ServerOut::Ok(_) => ctx.violation("C19", format!("accepted_despite:{}:{}", first.kind.name(), pk), format!("{}: {}", who, what)),
                ServerOut::Panic(_) | ServerOut::NoRoute | ServerOut::NotSent => {}
            }
        } else if !body_damage && !dont_care && ex.routed == Some(call.ep) && header_deliverable(call, meta) && within_limit(exchanges, ex.call as usize, meta) {
            // every argument decodes: no decode error may be produced
            if let ServerOut::Err(e) = &ex.server {
                if e.is_service && (e.code == "InvalidArgument" || e.code == "PermissionDenied") {
                    let got_param = e.safe_params.iter().find(|(k, _)| k == "param").map(|(_, v)| v.clone());
                    let pk = got_param
                        .as_ref()
                        .and_then(|p| serde_json::from_str::<String>(p).ok())
                        .and_then(|p| meta.args.iter().find(|a| a.name == p).map(|a| format!("{:?}", a.kind)))
                        .unwrap_or_else(|| "auth_or_unknown".into());
                    ctx.violation(
                        "C19",
                        format!("spurious_decode_error:{}:{}", e.code, pk),
                        format!("{}: every argument was valid but the endpoint returned {} param={:?} cause={:?}", who, e.code, got_param, e.cause),
                    );
                }
            }
        }
    }
}

// ---------------------------------------------------------------------- C06 --

#[derive(Debug, PartialEq)]
enum Want {
    Accept,
    Reject(&'static str),
    Either,
}

fn json_prefix_is_doc(bytes: &[u8]) -> bool {
    let mut it = serde_json::Deserializer::from_slice(bytes).into_iter::<serde::de::IgnoredAny>();
    match it.next() {
        Some(Ok(_)) => std::str::from_utf8(&bytes[..it.byte_offset()]).is_ok(),
        _ => false,
    }
}

fn c06(ctx: &Ctx, calls: &[CallRec], exchanges: &[Exchange], records: &[Record], sequential: bool) {
    let irx = ir();
    for ex in exchanges {
        let Some(call) = calls.get(ex.call as usize) else { continue };
        if ex.routed != Some(call.ep) {
            continue;
        }
        let meta = &irx.eps[call.ep];
        let Some(body) = meta.body_arg() else { continue };
        if irx.is_binary(&body.ty) {
            continue;
        }
        if ex.req_fired.iter().any(|f| is_param_fault(f.kind)) {
            continue;
        }
        if !header_deliverable(call, meta) {
            continue;
        }
        let who = format!("{}.{}", meta.service, meta.name);
        let optional = irx.is_optional(&body.ty).is_some();
        let ct = ex.wire.header("content-type");
        let (eff, fail) = ex.req_plan.effective();
        let limit = meta.limit.unwrap_or(DEFAULT_LIMIT);
        let all_transparent = !damaging(&ex.req_fired);
        ctx.count("probe.c06_evaluated");
        let (want, enc) = if optional && ct.is_none() {
            ctx.count("probe.c06_optional_without_content_type");
            (Want::Accept, None)
        } else {
            match judge::encoding_of(ct) {
                Err(_) => (Want::Reject("bad_content_type"), None),
                Ok(enc) if !(if enc == Enc::Json { ex.registered.0 } else { ex.registered.1 }) => {
                    ctx.count("probe.c06_encoding_not_registered");
                    (Want::Reject("encoding_not_registered"), None)
                }
                Ok(enc) => {
                    let w = if fail.is_some() {
                        Want::Reject("stream_error")
                    } else if eff.len() > limit {
                        ctx.count("probe.c06_over_limit");
                        Want::Reject("oversize")
                    } else {
                        if meta.limit.is_some() && eff.len() == limit {
                            ctx.count("probe.c06_exactly_at_limit");
                        }
                        let doc_ok = match enc {
                            Enc::Json => judge::json_one_doc(&eff).is_some(),
                            Enc::Smile => judge::smile_one_doc(&eff),
                        };
                        if !doc_ok {
                            if enc == Enc::Json && json_prefix_is_doc(&eff) {
                                Want::Reject("trailing_data")
                            } else if enc == Enc::Smile && ex.req_fired.iter().any(|f| matches!(f.kind, FK::TrailingGarbage | FK::TrailingSecondDoc)) && !ex.req_fired.iter().any(|f| matches!(f.kind, FK::Truncate | FK::ByteFlip | FK::CtLabelSwap)) {
                                Want::Reject("trailing_data")
                            } else {
                                Want::Reject("malformed")
                            }
                        } else if ex.req_fired.iter().any(|f| f.kind == FK::UnknownField) {
                            Want::Reject("unknown_field")
                        } else if ex.req_fired.iter().any(|f| f.kind == FK::TypeConfusion) {
                            Want::Reject("wrong_type")
                        } else if ex.req_fired.iter().any(|f| f.kind == FK::UnionMismatch) {
                            Want::Reject("union_tag_and_member_disagree")
                        } else if ex.req_fired.iter().any(|f| f.kind == FK::MissingField) && !ex.req_fired.iter().any(|f| matches!(f.kind, FK::ByteFlip | FK::CtLabelSwap)) {
                            Want::Reject("required_member_missing")
                        } else if ex.req_fired.iter().any(|f| f.kind == FK::LeafCorrupt) && !ex.req_fired.iter().any(|f| matches!(f.kind, FK::Truncate | FK::ByteFlip | FK::CtLabelSwap)) {
                            Want::Reject("leaf_not_of_its_type")
                        } else if ex.req_fired.iter().any(|f| f.kind == FK::NumberOutOfRange)
                            && !ex.req_fired.iter().any(|f| matches!(f.kind, FK::Truncate | FK::ByteFlip | FK::CtLabelSwap))
                        {
                            // (a truncated out-of-range number may be in range again)
                            Want::Reject("number_out_of_range")
                        } else if all_transparent {
                            Want::Accept
                        } else {
                            Want::Either
                        }
                    };
                    (w, Some(enc))
                }
            }
        };
        let invoked = ex.handler_after > ex.handler_before && sequential;
        let rec = if sequential && invoked { records.get(ex.handler_before).filter(|r| r.ep == call.ep) } else { None };
        let accepted = matches!(ex.server, ServerOut::Ok(_)) || invoked;
        let faults = kinds(&ex.req_fired);
        match (&want, accepted) {
            (Want::Reject(why), true) => {
                ctx.violation(
                    "C06",
                    format!("accepted:{}:{}", why, enc.map(|e| format!("{:?}", e)).unwrap_or_else(|| "none".into())),
                    format!("{}: body {:?} (content-type {:?}, plan {}, faults {}) must be refused ({}) but the handler ran", who, clip(&String::from_utf8_lossy(&eff)), ct.map(String::from_utf8_lossy), ex.req_plan.describe(), faults, why),
                );
            }
            (Want::Accept, false) => {
                if let ServerOut::Err(e) = &ex.server {
                    ctx.violation(
                        "C06",
                        format!("valid_body_rejected:{}", if faults.is_empty() { "none".to_string() } else { faults.clone() }),
                        format!("{}: valid in-limit body {:?} (content-type {:?}, plan {}) was refused: {} {:?}", who, clip(&String::from_utf8_lossy(&eff)), ct.map(String::from_utf8_lossy), ex.req_plan.describe(), e.code, e.cause),
                    );
                }
            }
            _ => {}
        }
        if accepted {
            // the handler receives exactly the value the bytes denote
            if let Some(r) = rec {
                let off = if matches!(meta.auth, crate::ir::Auth::None) { 0 } else { 1 };
                let bi = meta.args.iter().position(|a| a.kind == PKind::Body).unwrap() + off;
                let seen = &r.args[bi].1;
                if want == Want::Accept {
                    if optional && ct.is_none() {
                        if !seen.json_value().is_null() {
                            ctx.violation("C06", "optional_without_content_type_not_absent", format!("{}: handler saw {}", who, seen.render()));
                        }
                    } else if !call.args[bi].val.eq_dyn(&**seen) {
                        ctx.violation(
                            "C06",
                            format!("handler_value_differs:{}", faults),
                            format!("{}: client sent {} handler saw {} (plan {})", who, call.args[bi].val.render(), seen.render(), ex.req_plan.describe()),
                        );
                    }
                } else if want == Want::Either && enc == Some(Enc::Json) {
                    match std::str::from_utf8(&eff).ok().and_then(|s| glue_gen::body_from_json(call.ep, s)) {
                        Some(reference) => {
                            if !reference.eq_dyn(&**seen) {
                                ctx.violation("C06", "handler_value_not_what_bytes_denote", format!("{}: bytes {:?} denote {} handler saw {}", who, clip(&String::from_utf8_lossy(&eff)), reference.render(), seen.render()));
                            }
                        }
                        None => ctx.violation("C06", "server_accepts_what_client_rules_reject", format!("{}: bytes {:?}", who, clip(&String::from_utf8_lossy(&eff)))),
                    }
                }
            }
        } else {
            // refusal: INVALID_ARGUMENT service error or the stream's own error
            match &ex.server {
                ServerOut::Err(e) => {
                    let ok = (e.is_service && e.code == "InvalidArgument" && e.marker.is_none()) || (e.marker.is_some() && e.marker == fail);
                    if !ok {
                        ctx.violation(
                            "C06",
                            format!("wrong_refusal:{}:{}", match &want { Want::Reject(w) => *w, _ => "either" }, if e.marker.is_some() { "foreign_marker".to_string() } else { e.code.clone() }),
                            format!("{}: refusal must be INVALID_ARGUMENT or the stream's own error, got {} {} marker={:?} (faults {})", who, e.code, e.name, e.marker, faults),
                        );
                    } else if e.marker.is_some() {
                        ctx.count("probe.c06_stream_error_returned");
                    }
                }
                _ => {}
            }
        }
    }
}

// ---------------------------------------------------------------------- C18 --

#[derive(Debug, PartialEq)]
enum WantC {
    OkHandler,
    OkDefault,
    OkUnit,
    OkStream,
    Err(&'static str),
    Either,
}

fn c18(ctx: &Ctx, calls: &[CallRec], exchanges: &[Exchange], records: &[Record], sequential: bool) {
    let irx = ir();
    for ex in exchanges {
        let Some(call) = calls.get(ex.call as usize) else { continue };
        let Some(w) = &ex.resp_wire else { continue };
        if ex.routed != Some(call.ep) {
            continue;
        }
        let meta = &irx.eps[call.ep];
        let who = format!("{}.{}", meta.service, meta.name);
        let rk = meta.ret_kind();
        let (eff, fail) = ex.resp_plan.effective();
        let ct = w.header("content-type");
        let all_transparent = !damaging(&ex.resp_fired);
        let ct_params = ex.resp_fired.iter().any(|f| f.kind == FK::CtParams);
        let flipped = ex.resp_fired.iter().any(|f| f.kind == FK::StatusFlip);
        let json_ct = ct == Some(b"application/json");
        let octet_ct = ct == Some(b"application/octet-stream");
        ctx.count("probe.c18_evaluated");
        let judge_json = |eff: &[u8]| -> WantC {
            if fail.is_some() {
                WantC::Err("stream_error")
            } else if judge::json_one_doc(eff).is_none() {
                if json_prefix_is_doc(eff) {
                    WantC::Err("trailing_data")
                } else {
                    WantC::Err("malformed")
                }
            } else if ex.resp_fired.iter().any(|f| f.kind == FK::UnionMismatch) {
                WantC::Err("union_tag_and_member_disagree")
            } else if ex.resp_fired.iter().any(|f| f.kind == FK::MissingField) && !ex.resp_fired.iter().any(|f| f.kind == FK::ByteFlip) {
                WantC::Err("required_member_missing")
            } else if ex.resp_fired.iter().any(|f| f.kind == FK::LeafCorrupt) && !ex.resp_fired.iter().any(|f| matches!(f.kind, FK::Truncate | FK::ByteFlip)) {
                WantC::Err("leaf_not_of_its_type")
            } else if ex.resp_fired.iter().any(|f| f.kind == FK::NumberOutOfRange) && !ex.resp_fired.iter().any(|f| matches!(f.kind, FK::Truncate | FK::ByteFlip)) {
                WantC::Err("number_out_of_range")
            } else if all_transparent {
                WantC::OkHandler
            } else {
                WantC::Either
            }
        };
        let want = match rk {
            RetKind::None => {
                if w.status == 204 {
                    WantC::OkUnit
                } else if json_ct {
                    match judge_json(&eff) {
                        WantC::OkHandler | WantC::Either => WantC::OkUnit,
                        o => o,
                    }
                } else if ct_params {
                    WantC::Either
                } else {
                    WantC::Err("bad_content_type")
                }
            }
            RetKind::Json => {
                let defaultable = meta.returns.as_ref().map(|r| irx.is_collection(r)).unwrap_or(false);
                if w.status == 204 {
                    if defaultable {
                        WantC::OkDefault
                    } else {
                        WantC::Err("status_204_for_plain_value")
                    }
                } else if json_ct {
                    judge_json(&eff)
                } else if ct_params {
                    WantC::Either
                } else {
                    WantC::Err("bad_content_type")
                }
            }
            RetKind::Binary => {
                if w.status == 204 || flipped {
                    WantC::Either
                } else if octet_ct {
                    WantC::OkStream
                } else if ct_params {
                    WantC::Either
                } else {
                    WantC::Err("bad_content_type")
                }
            }
            RetKind::OptBinary => {
                if w.status == 204 {
                    WantC::OkDefault
                } else if octet_ct {
                    WantC::OkStream
                } else if ct_params {
                    WantC::Either
                } else {
                    WantC::Err("bad_content_type")
                }
            }
        };
        if call.client_kind == crate::mirror::ClientKind::Macro && rk == RetKind::None {
            // a macro method without `accept` uses UnitResponseDeserializer, documented as
            // "ignores the response and returns ()": nothing to demand
            continue;
        }
        if call.client_kind == crate::mirror::ClientKind::Smile {
            // the foreign peer negotiates Smile; only its undamaged exchanges are judged (by C04)
            continue;
        }
        let faults = kinds(&ex.resp_fired);
        let describe = || {
            format!(
                "status {} content-type {:?} body {:?} plan {} faults [{}]",
                w.status,
                ct.map(String::from_utf8_lossy),
                clip(&String::from_utf8_lossy(&eff)),
                ex.resp_plan.describe(),
                faults
            )
        };
        match (&want, &call.result) {
            (_, CallResult::Panic(_)) | (_, CallResult::Cancelled) | (_, CallResult::NotRun) => {}
            (WantC::Err(why), CallResult::Ok(v)) => {
                // one narrow class has a name of its own (a recorded finding): the body is not UTF-8,
                // yet passes a grammar-only skim - the bad bytes sit inside text the decoder skips
                // (an unknown member, or the whole body of an endpoint without a return value)
                let skipped_text = *why == "malformed"
                    && json_ct
                    && std::str::from_utf8(&eff).is_err()
                    && serde_json::from_slice::<serde::de::IgnoredAny>(&eff).is_ok();
                if skipped_text {
                    ctx.violation(
                        "C18",
                        "accepted:invalid_utf8_inside_skipped_text",
                        format!("{}: client returned {} from a body that is not UTF-8 (the bytes sit in text the decoder skips): {}", who, v.render(), describe()),
                    );
                } else {
                    ctx.violation("C18", format!("accepted:{}:{}", why, meta.ret_kind_name()), format!("{}: client returned {} from a response that must be refused ({}): {}", who, v.render(), why, describe()));
                }
            }
            (WantC::Err(_), CallResult::Err(_)) => {
                ctx.count("probe.c18_error_as_expected");
            }
            (WantC::Either, CallResult::Err(_)) => {}
            (WantC::Either, CallResult::Ok(v)) => {
                // never a partial value: it must be what the bytes denote
                if rk == RetKind::Json && json_ct {
                    match std::str::from_utf8(&eff).ok().and_then(|s| crate::mirror::ret_from_json(call.ep, s)) {
                        Some(reference) => {
                            if !reference.eq_dyn(&**v) {
                                ctx.violation("C18", format!("value_not_what_bytes_denote:{}", meta.ret_kind_name()), format!("{}: client returned {} but the body denotes {}: {}", who, v.render(), reference.render(), describe()));
                            }
                        }
                        // history independence: the contiguous bytes do not decode to the return type,
                        // so no chunking / poll schedule of them may yield a value
                        None => ctx.violation("C18", format!("value_from_undecodable_body:{}", meta.ret_kind_name()), format!("{}: client returned {} from a body that does not decode as the return type: {}", who, v.render(), describe())),
                    }
                }
            }
            (WantC::OkDefault, CallResult::Err(e)) if call.client_kind == crate::mirror::ClientKind::Macro && w.status == 204 => {
                ctx.violation(
                    "C18",
                    format!("macro_client_204:{}", meta.ret_kind_name()),
                    format!("{}: macro-derived client with ConjureResponseDeserializer fails on 204 instead of returning the empty value: {}", who, e.cause),
                );
            }
            (_, CallResult::Err(e)) => {
                ctx.violation(
                    "C18",
                    format!("valid_response_rejected:{}:{}", meta.ret_kind_name(), if faults.is_empty() { "none".to_string() } else { faults.clone() }),
                    format!("{}: {} -> client error {} / {}", who, describe(), e.code, e.cause),
                );
            }
            (WantC::OkUnit, CallResult::Ok(_)) => {}
            (WantC::OkDefault, CallResult::Ok(v)) => {
                ctx.count("probe.c18_204_default");
                if let Some(d) = glue_gen::ret_default(call.ep) {
                    if !d.eq_dyn(&**v) {
                        ctx.violation("C18", format!("status_204_not_empty:{}", meta.ret_kind_name()), format!("{}: 204 must yield the empty value, client returned {}", who, v.render()));
                    }
                }
            }
            (WantC::OkHandler, CallResult::Ok(v)) => {
                // with several calls in flight on one endpoint the scripted returns may be
                // consumed in another order; C04 matches those, here the body is the reference
                let reference = if !sequential {
                    std::str::from_utf8(&eff).ok().and_then(|s| crate::mirror::ret_from_json(call.ep, s))
                } else {
                    None
                };
                // what the handler of *this* exchange returned (an earlier refused call may have left its
                // scripted return behind for this one)
                let returned = if sequential && ex.handler_after > ex.handler_before {
                    records.get(ex.handler_before).and_then(|r| r.ret.as_ref())
                } else {
                    None
                };
                let expected: &dyn DynVal = match (&reference, returned) {
                    (Some(r), _) => &**r,
                    (None, Some(r)) => &**r,
                    (None, None) => &*call.ret,
                };
                if !sequential && reference.is_none() {
                    // nothing to compare against
                } else if !expected.eq_dyn(&**v) {
                    ctx.violation(
                        "C18",
                        format!("client_value_differs:{}:{}", meta.ret_kind_name(), faults),
                        format!("{}: handler returned {} client returned {}: {}", who, call.ret.render(), v.render(), describe()),
                    );
                }
            }
            (WantC::OkStream, CallResult::Ok(v)) => {
                // the stream is handed over: its bytes and its own error reach the caller
                let expect = crate::glue::BinVal {
                    bytes: eff.clone(),
                    err: fail,
                    foreign_err: false,
                };
                let got: Option<&crate::glue::BinVal> = v
                    .as_any()
                    .downcast_ref::<crate::glue::BinVal>()
                    .or_else(|| v.as_any().downcast_ref::<Option<crate::glue::BinVal>>().and_then(|o| o.as_ref()));
                match got {
                    Some(g) if *g == expect => {
                        ctx.count("probe.c18_stream_handed_over");
                    }
                    other => ctx.violation("C18", format!("stream_differs:{}", meta.ret_kind_name()), format!("{}: expected {} bytes err {:?}, client stream gave {:?}", who, eff.len(), fail, other.map(|g| (g.bytes.len(), g.err, g.foreign_err)))),
                }
            }
        }
    }
}

pub fn _unused(_: Prim) {}
