//! Runtime model of ir/sim-ir.json: endpoint metadata for the transport,
//! router, fault injectors and oracles, and an IR-driven JSON document
//! generator used to construct values of generated types.

use crate::tape::Tape;
use serde_json::{Map, Number, Value};
use std::collections::BTreeMap;
use std::sync::OnceLock;

#[derive(Clone, Copy, Debug, PartialEq, Eq)]
pub enum Prim {
    String,
    Integer,
    Double,
    Safelong,
    Boolean,
    Uuid,
    Rid,
    Bearertoken,
    Datetime,
    Binary,
    Any,
}

#[derive(Clone, Debug, PartialEq)]
pub enum Ty {
    Prim(Prim),
    Opt(Box<Ty>),
    List(Box<Ty>),
    Set(Box<Ty>),
    Map(Box<Ty>, Box<Ty>),
    Ref(String),
}

#[derive(Clone, Debug)]
pub enum Def {
    Alias(Ty, Option<String>),
    Enum(Vec<String>),
    Object(Vec<(String, Ty)>),
    Union(Vec<(String, Ty)>),
}

#[derive(Clone, Copy, Debug, PartialEq, Eq)]
pub enum PKind {
    Path,
    Query,
    Header,
    Body,
}

#[derive(Clone, Debug)]
pub struct ArgMeta {
    pub name: String,
    pub ty: Ty,
    pub kind: PKind,
    pub param_id: String,
    pub safety: Option<String>,
    pub legacy_safe: bool,
}

impl ArgMeta {
    /// explicitly declared safe (safety field, legacy marker or tag)
    pub fn declared_safe(&self) -> bool {
        match self.safety.as_deref() {
            Some("SAFE") => true,
            Some(_) => false,
            None => self.legacy_safe,
        }
    }
}

#[derive(Clone, Debug)]
pub enum Auth {
    None,
    Header,
    Cookie(String),
}

#[derive(Clone, Debug)]
pub enum Seg {
    Lit(String),
    Param(String),
}

#[derive(Clone, Copy, Debug, PartialEq, Eq)]
pub enum RetKind {
    None,
    Json,
    Binary,
    OptBinary,
}

#[derive(Clone, Debug)]
pub struct EpMeta {
    pub idx: usize,
    pub service: String,
    pub name: String,
    pub method: String,
    pub template: String,
    pub segs: Vec<Seg>,
    pub auth: Auth,
    pub args: Vec<ArgMeta>,
    pub returns: Option<Ty>,
    pub limit: Option<usize>,
    pub has_ctx: bool,
}

pub struct Ir {
    pub defs: BTreeMap<String, Def>,
    pub eps: Vec<EpMeta>,
    /// endpoints with index below this come from ir/sim-ir.json (generated code exists for them)
    pub generated: usize,
}

fn parse_ty(v: &Value) -> Ty {
    match v["type"].as_str().unwrap() {
        "primitive" => Ty::Prim(match v["primitive"].as_str().unwrap() {
            "STRING" => Prim::String,
            "INTEGER" => Prim::Integer,
            "DOUBLE" => Prim::Double,
            "SAFELONG" => Prim::Safelong,
            "BOOLEAN" => Prim::Boolean,
            "UUID" => Prim::Uuid,
            "RID" => Prim::Rid,
            "BEARERTOKEN" => Prim::Bearertoken,
            "DATETIME" => Prim::Datetime,
            "BINARY" => Prim::Binary,
            "ANY" => Prim::Any,
            o => panic!("prim {}", o),
        }),
        "optional" => Ty::Opt(Box::new(parse_ty(&v["optional"]["itemType"]))),
        "list" => Ty::List(Box::new(parse_ty(&v["list"]["itemType"]))),
        "set" => Ty::Set(Box::new(parse_ty(&v["set"]["itemType"]))),
        "map" => Ty::Map(
            Box::new(parse_ty(&v["map"]["keyType"])),
            Box::new(parse_ty(&v["map"]["valueType"])),
        ),
        "reference" => Ty::Ref(v["reference"]["name"].as_str().unwrap().to_string()),
        // external types are their fallback as far as the wire is concerned
        "external" => parse_ty(&v["external"]["fallback"]),
        o => panic!("type {}", o),
    }
}

fn parse_size(s: &str) -> usize {
    let s = s.trim().to_ascii_lowercase();
    let digits: String = s.chars().take_while(|c| c.is_ascii_digit()).collect();
    let unit = s[digits.len()..].trim().to_string();
    let n: usize = digits.parse().unwrap();
    // decimal (k, kb, m, mb) and binary (ki, kib, mi, mib) multiples, as commonly understood
    match unit.as_str() {
        "b" | "" => n,
        "k" | "kb" => n * 1000,
        "ki" | "kib" => n * 1024,
        "m" | "mb" => n * 1000 * 1000,
        "mi" | "mib" => n * 1024 * 1024,
        o => panic!("unit {}", o),
    }
}

pub fn ir() -> &'static Ir {
    static IR: OnceLock<Ir> = OnceLock::new();
    IR.get_or_init(|| {
        let v: Value = serde_json::from_str(include_str!("../ir/sim-ir.json")).unwrap();
        let mut defs = BTreeMap::new();
        for t in v["types"].as_array().unwrap() {
            let k = t["type"].as_str().unwrap();
            let d = &t[k];
            let name = d["typeName"]["name"].as_str().unwrap().to_string();
            let fields = |key: &str| -> Vec<(String, Ty)> {
                d[key]
                    .as_array()
                    .unwrap()
                    .iter()
                    .map(|f| (f["fieldName"].as_str().unwrap().to_string(), parse_ty(&f["type"])))
                    .collect()
            };
            let def = match k {
                "alias" => Def::Alias(
                    parse_ty(&d["alias"]),
                    d["safety"].as_str().map(|s| s.to_string()),
                ),
                "enum" => Def::Enum(
                    d["values"]
                        .as_array()
                        .unwrap()
                        .iter()
                        .map(|x| x["value"].as_str().unwrap().to_string())
                        .collect(),
                ),
                "object" => Def::Object(fields("fields")),
                "union" => Def::Union(fields("union")),
                o => panic!("def {}", o),
            };
            defs.insert(name, def);
        }
        let mut eps = Vec::new();
        for s in v["services"].as_array().unwrap() {
            let sname = s["serviceName"]["name"].as_str().unwrap().to_string();
            for e in s["endpoints"].as_array().unwrap() {
                let template = e["httpPath"].as_str().unwrap().to_string();
                let segs = template
                    .split('/')
                    .skip(1)
                    .map(|p| {
                        if p.starts_with('{') {
                            Seg::Param(p[1..p.len() - 1].to_string())
                        } else {
                            Seg::Lit(p.to_string())
                        }
                    })
                    .collect();
                let auth = match e["auth"]["type"].as_str() {
                    None => Auth::None,
                    Some("header") => Auth::Header,
                    Some(_) => Auth::Cookie(e["auth"]["cookie"]["cookieName"].as_str().unwrap().to_string()),
                };
                let args = e["args"]
                    .as_array()
                    .unwrap()
                    .iter()
                    .map(|a| {
                        let pk = a["paramType"]["type"].as_str().unwrap();
                        let kind = match pk {
                            "path" => PKind::Path,
                            "query" => PKind::Query,
                            "header" => PKind::Header,
                            _ => PKind::Body,
                        };
                        let name = a["argName"].as_str().unwrap().to_string();
                        let param_id = a["paramType"][pk]["paramId"]
                            .as_str()
                            .map(|s| s.to_string())
                            .unwrap_or_else(|| name.clone());
                        ArgMeta {
                            name,
                            ty: parse_ty(&a["type"]),
                            kind,
                            param_id,
                            safety: a["safety"].as_str().map(|s| s.to_string()),
                            // only com.palantir.logsafe.Safe is the legacy safe marker
                            legacy_safe: a["markers"].as_array().unwrap().iter().any(|m| {
                                let r = &m["external"]["externalReference"];
                                r["package"] == "com.palantir.logsafe" && r["name"] == "Safe"
                            }) || a["tags"].as_array().unwrap().iter().any(|t| t == "safe"),
                        }
                    })
                    .collect();
                let tags: Vec<String> = e["tags"]
                    .as_array()
                    .unwrap()
                    .iter()
                    .map(|t| t.as_str().unwrap().to_string())
                    .collect();
                let limit = tags
                    .iter()
                    .find_map(|t| t.strip_prefix("server-limit-request-size:"))
                    .map(parse_size);
                eps.push(EpMeta {
                    idx: eps.len(),
                    service: sname.clone(),
                    name: e["endpointName"].as_str().unwrap().to_string(),
                    method: e["httpMethod"].as_str().unwrap().to_string(),
                    template,
                    segs,
                    auth,
                    args,
                    returns: e.get("returns").filter(|r| !r.is_null()).map(parse_ty),
                    limit,
                    has_ctx: tags.iter().any(|t| t == "server-request-context"),
                });
            }
        }
        // endpoints that exist only as hand-written macro traits (src/mirror.rs): multi-segment
        // path parameters cannot be declared in a Conjure IR
        let generated = eps.len();
        eps.push(EpMeta {
            idx: generated,
            service: "MacroOnly".into(),
            name: "segments".into(),
            method: "GET".into(),
            template: "/mo/{head}/n/{num}/raw/{tail}".into(),
            segs: vec![Seg::Lit("mo".into()), Seg::Param("headSegment".into()), Seg::Lit("n".into()), Seg::Param("theNumber".into()), Seg::Lit("raw".into()), Seg::Param("tail".into())],
            auth: Auth::None,
            args: vec![
                // (the path template calls it `head`; the declared name, via `log_as`, is `headSegment`)
                ArgMeta { name: "headSegment".into(), ty: Ty::Prim(Prim::String), kind: PKind::Path, param_id: "head".into(), safety: None, legacy_safe: false },
                ArgMeta { name: "theNumber".into(), ty: Ty::Prim(Prim::Integer), kind: PKind::Path, param_id: "num".into(), safety: None, legacy_safe: false },
                ArgMeta { name: "tail".into(), ty: Ty::List(Box::new(Ty::Prim(Prim::String))), kind: PKind::Path, param_id: "tail".into(), safety: None, legacy_safe: false },
                ArgMeta { name: "q".into(), ty: Ty::List(Box::new(Ty::Prim(Prim::Integer))), kind: PKind::Query, param_id: "k&ey".into(), safety: None, legacy_safe: false },
                ArgMeta { name: "opt".into(), ty: Ty::Opt(Box::new(Ty::Prim(Prim::Integer))), kind: PKind::Query, param_id: "o".into(), safety: None, legacy_safe: false },
                ArgMeta { name: "optNum".into(), ty: Ty::Opt(Box::new(Ty::Prim(Prim::Integer))), kind: PKind::Header, param_id: "X-Opt-Num".into(), safety: None, legacy_safe: false },
            ],
            returns: Some(Ty::Prim(Prim::String)),
            limit: None,
            has_ctx: false,
        });
        Ir { defs, eps, generated }
    })
}

impl Ir {
    pub fn dealias<'a>(&'a self, mut t: &'a Ty) -> &'a Ty {
        loop {
            match t {
                Ty::Ref(n) => match &self.defs[n] {
                    Def::Alias(inner, _) => t = inner,
                    _ => return t,
                },
                _ => return t,
            }
        }
    }

    pub fn is_binary(&self, t: &Ty) -> bool {
        matches!(self.dealias(t), Ty::Prim(Prim::Binary))
    }

    pub fn is_optional<'a>(&'a self, t: &'a Ty) -> Option<&'a Ty> {
        match self.dealias(t) {
            Ty::Opt(i) => Some(i),
            _ => None,
        }
    }

    pub fn is_collection(&self, t: &Ty) -> bool {
        matches!(
            self.dealias(t),
            Ty::Opt(_) | Ty::List(_) | Ty::Set(_) | Ty::Map(_, _)
        )
    }

    pub fn ep(&self, service: &str, name: &str) -> &EpMeta {
        self.eps
            .iter()
            .find(|e| e.service == service && e.name == name)
            .unwrap()
    }
}

impl EpMeta {
    pub fn body_arg(&self) -> Option<&ArgMeta> {
        self.args.iter().find(|a| a.kind == PKind::Body)
    }

    pub fn ret_kind(&self) -> RetKind {
        let ir = ir();
        match &self.returns {
            None => RetKind::None,
            Some(r) => match ir.is_optional(r) {
                Some(i) if ir.is_binary(i) => RetKind::OptBinary,
                _ if ir.is_binary(r) => RetKind::Binary,
                _ => RetKind::Json,
            },
        }
    }
}

// ------------------------------------------------------ document generator --

pub struct DocKnobs {
    /// remaining node budget
    pub budget: i64,
    pub max_depth: u32,
    /// string alphabet class: 0 plain, 1 reserved+unicode
    pub wild_strings: bool,
    pub unknown_enum: bool,
    /// optionals written as explicit null sometimes
    pub explicit_null: bool,
}

impl DocKnobs {
    pub fn draw(t: &mut Tape) -> DocKnobs {
        let budget = match t.draw(6) {
            0 => 4,
            1 | 2 => 12,
            3 | 4 => 40,
            _ => 150,
        };
        DocKnobs {
            budget,
            max_depth: 6,
            wild_strings: t.chance(1, 2),
            unknown_enum: false,
            explicit_null: t.chance(1, 4),
        }
    }
}

pub fn b64(bytes: &[u8]) -> String {
    // the harness's own padded standard-alphabet Base64 (independent judge)
    const A: &[u8; 64] = b"ABCDEFGHIJKLMNOPQRSTUVWXYZabcdefghijklmnopqrstuvwxyz0123456789+/";
    let mut s = String::with_capacity((bytes.len() + 2) / 3 * 4);
    for c in bytes.chunks(3) {
        let n = (c[0] as u32) << 16 | (*c.get(1).unwrap_or(&0) as u32) << 8 | *c.get(2).unwrap_or(&0) as u32;
        s.push(A[(n >> 18) as usize & 63] as char);
        s.push(A[(n >> 12) as usize & 63] as char);
        s.push(if c.len() > 1 { A[(n >> 6) as usize & 63] as char } else { '=' });
        s.push(if c.len() > 2 { A[n as usize & 63] as char } else { '=' });
    }
    s
}

pub fn gen_string(t: &mut Tape, wild: bool, max: u64) -> String {
    let n = t.size(max);
    let mut s = String::new();
    for _ in 0..n {
        let c = if !wild {
            *t.pick(b"abcxyzABC019 _-") as char
        } else {
            match t.draw(8) {
                0 | 1 => *t.pick(b"abcXYZ09") as char,
                2 | 3 => *t.pick(b" !\"#$%&'()*+,-./:;<=>?@[\\]^_`{|}~") as char,
                4 => char::from_u32(t.draw(0x20) as u32).unwrap(), // control
                5 => *t.pick(&['é', 'ß', 'ж', '中', '√', '\u{7f}', '\u{80}', '\u{a0}', '\u{2028}']),
                6 => *t.pick(&['😀', '𝄞', '\u{10FFFF}', '\u{FFFD}', '\u{FEFF}']),
                _ => *t.pick(b"%2F%00+=&") as char,
            }
        };
        s.push(c);
    }
    s
}

pub fn gen_f64(t: &mut Tape) -> f64 {
    match t.draw(12) {
        0 => 0.0,
        1 => -0.0,
        2 => f64::NAN,
        3 => f64::INFINITY,
        4 => f64::NEG_INFINITY,
        5 => t.draw(2000) as f64 - 1000.0,
        6 => (t.draw(2_000_000) as f64 - 1_000_000.0) / 1000.0,
        7 => *t.pick(&[f64::MAX, f64::MIN, f64::MIN_POSITIVE, 5e-324, f64::EPSILON, 9007199254740993.0, 1e21, 1e-7, 0.1, 1.0 / 3.0]),
        8 => f64::from_bits(t.bits() & 0x000f_ffff_ffff_ffff), // subnormal
        9 => {
            // NaNs other than the constant: sign bit set, signalling, with a payload
            // (what 0.0 / 0.0 yields at run time on x86-64 has its sign bit set)
            let v = match t.draw(4) {
                0 => -f64::NAN,
                1 => f64::from_bits(0xfff8_0000_0000_0000),
                2 => f64::from_bits(0x7ff0_0000_0000_0001),
                _ => f64::from_bits(0x7ff0_0000_0000_0000 | (t.bits() & 0x800f_ffff_ffff_ffff) | 1),
            };
            debug_assert!(v.is_nan());
            v
        }
        _ => {
            // any bit pattern (NaNs keep their sign and payload)
            f64::from_bits(t.bits())
        }
    }
}

pub fn f64_json(v: f64) -> Value {
    if v.is_nan() {
        Value::String("NaN".into())
    } else if v == f64::INFINITY {
        Value::String("Infinity".into())
    } else if v == f64::NEG_INFINITY {
        Value::String("-Infinity".into())
    } else {
        Value::Number(Number::from_f64(v).unwrap())
    }
}

pub fn f64_plain(v: f64) -> String {
    if v.is_nan() {
        "NaN".into()
    } else if v == f64::INFINITY {
        "Infinity".into()
    } else if v == f64::NEG_INFINITY {
        "-Infinity".into()
    } else {
        // shortest round-trip text, via serde_json (ryu); PLAIN accepts it
        Number::from_f64(v).unwrap().to_string()
    }
}

pub fn gen_i32(t: &mut Tape) -> i32 {
    match t.draw(6) {
        0 => 0,
        1 => t.draw(100) as i32,
        2 => -(t.draw(100) as i32),
        3 => *t.pick(&[i32::MAX, i32::MIN, -1, 1]),
        _ => t.bits() as i32,
    }
}

pub const SAFE_MAX: i64 = (1 << 53) - 1;

pub fn gen_safelong(t: &mut Tape) -> i64 {
    match t.draw(6) {
        0 => 0,
        1 => t.draw(1000) as i64,
        2 => -(t.draw(1000) as i64),
        3 => *t.pick(&[SAFE_MAX, -SAFE_MAX, SAFE_MAX - 1, 1 << 32, -(1 << 40)]),
        _ => (t.bits() % (SAFE_MAX as u64 * 2 + 1)) as i64 - SAFE_MAX,
    }
}

pub fn gen_uuid_string(t: &mut Tape) -> String {
    let a = t.bits();
    let b = t.bits();
    format!(
        "{:08x}-{:04x}-{:04x}-{:04x}-{:012x}",
        (a >> 32) as u32,
        (a >> 16) as u16,
        a as u16,
        (b >> 48) as u16,
        b & 0xffff_ffff_ffff
    )
}

pub fn gen_rid_string(t: &mut Tape, canary: Option<&str>) -> String {
    let word = |t: &mut Tape, first: &[u8], rest: &[u8], min: u64| -> String {
        let n = min + t.draw(4);
        let mut s = String::new();
        for i in 0..n {
            s.push(*t.pick(if i == 0 { first } else { rest }) as char);
        }
        s
    };
    let service = word(t, b"abcz", b"abz09-", 1);
    let instance = word(t, b"abz09", b"abz09-", 0);
    let type_ = word(t, b"abcz", b"abz09-", 1);
    let mut locator = word(t, b"aZ09_.-", b"aZ09_.-", 1);
    if let Some(c) = canary {
        locator.push_str(c);
    }
    format!("ri.{}.{}.{}.{}", service, instance, type_, locator)
}

pub fn gen_token_string(t: &mut Tape, canary: Option<&str>) -> String {
    let n = 1 + t.draw(12);
    let mut s = String::new();
    for _ in 0..n {
        s.push(*t.pick(b"abcXYZ019-._~+/") as char);
    }
    if let Some(c) = canary {
        s.push_str(c);
    }
    for _ in 0..t.draw(3) {
        s.push('=');
    }
    s
}

pub fn gen_datetime_string(t: &mut Tape) -> String {
    let year = match t.draw(4) {
        0 => 1970 + t.draw(80),
        1 => *t.pick(&[0u64, 1, 9999, 1969, 2038]),
        _ => t.draw(10000),
    };
    let mut s = format!(
        "{:04}-{:02}-{:02}T{:02}:{:02}:{:02}",
        year,
        1 + t.draw(12),
        1 + t.draw(28),
        t.draw(24),
        t.draw(60),
        t.draw(60)
    );
    match t.draw(4) {
        0 => {}
        1 => s.push_str(&format!(".{:03}", t.draw(1000))),
        2 => s.push_str(&format!(".{:06}", t.draw(1_000_000))),
        _ => s.push_str(&format!(".{:09}", t.draw(1_000_000_000))),
    }
    s.push('Z');
    s
}

pub fn gen_bytes(t: &mut Tape, max: u64) -> Vec<u8> {
    let n = t.size(max);
    (0..n)
        .map(|_| match t.draw(4) {
            0 => 0,
            1 => 0xff,
            _ => t.draw(256) as u8,
        })
        .collect()
}

impl Ir {
    pub fn gen_doc(&self, ty: &Ty, t: &mut Tape, k: &mut DocKnobs, depth: u32) -> Value {
        k.budget -= 1;
        match ty {
            Ty::Prim(p) => match p {
                Prim::String => {
                    let max = if t.chance(1, 40) { 1500 } else { 24 };
                    Value::String(gen_string(t, k.wild_strings, max))
                }
                Prim::Integer => Value::Number(gen_i32(t).into()),
                Prim::Double => f64_json(gen_f64(t)),
                Prim::Safelong => Value::Number(gen_safelong(t).into()),
                Prim::Boolean => Value::Bool(t.chance(1, 2)),
                Prim::Uuid => Value::String(gen_uuid_string(t)),
                Prim::Rid => Value::String(gen_rid_string(t, None)),
                Prim::Bearertoken => Value::String(gen_token_string(t, None)),
                Prim::Datetime => Value::String(gen_datetime_string(t)),
                Prim::Binary => {
                    let max = if t.chance(1, 30) { 3000 } else { 24 };
                    Value::String(b64(&gen_bytes(t, max)))
                }
                Prim::Any => Value::Null,
            },
            Ty::Opt(inner) => {
                if k.budget <= 0 || depth >= k.max_depth || t.chance(1, 3) {
                    Value::Null
                } else {
                    self.gen_doc(inner, t, k, depth + 1)
                }
            }
            Ty::List(inner) => {
                let n = if k.budget <= 0 || depth >= k.max_depth { 0 } else { t.size(5) };
                Value::Array((0..n).map(|_| self.gen_doc(inner, t, k, depth + 1)).collect())
            }
            Ty::Set(inner) => {
                let n = if k.budget <= 0 || depth >= k.max_depth { 0 } else { t.size(5) };
                let mut seen = Vec::<String>::new();
                let mut out = Vec::new();
                for _ in 0..n {
                    let v = self.gen_doc(inner, t, k, depth + 1);
                    let key = canonical_scalar(&v);
                    if !seen.contains(&key) {
                        seen.push(key);
                        out.push(v);
                    }
                }
                Value::Array(out)
            }
            Ty::Map(kt, vt) => {
                let n = if k.budget <= 0 || depth >= k.max_depth { 0 } else { t.size(4) };
                let mut m = Map::new();
                let mut seen = Vec::<String>::new();
                for _ in 0..n {
                    let kv = self.gen_doc(kt, t, k, depth + 1);
                    let canon = canonical_scalar(&kv);
                    if seen.contains(&canon) {
                        continue;
                    }
                    seen.push(canon);
                    let key = match kv {
                        Value::String(s) => s,
                        Value::Number(n) => n.to_string(),
                        Value::Bool(b) => b.to_string(),
                        o => o.to_string(),
                    };
                    m.insert(key, self.gen_doc(vt, t, k, depth + 1));
                }
                Value::Object(m)
            }
            Ty::Ref(name) => match &self.defs[name] {
                Def::Alias(inner, _) => self.gen_doc(inner, t, k, depth),
                Def::Enum(values) => Value::String(t.pick(values).clone()),
                Def::Object(fields) => {
                    let mut m = Map::new();
                    for (f, fty) in fields {
                        let v = self.gen_doc(fty, t, k, depth + 1);
                        let omittable = matches!(self.dealias(fty), Ty::Opt(_) | Ty::List(_) | Ty::Set(_) | Ty::Map(_, _));
                        let empty = match &v {
                            Value::Null => true,
                            Value::Array(a) => a.is_empty(),
                            Value::Object(o) => o.is_empty() && matches!(self.dealias(fty), Ty::Map(_, _)),
                            _ => false,
                        };
                        if omittable && empty && !(k.explicit_null && t.chance(1, 2)) {
                            continue;
                        }
                        m.insert(f.clone(), v);
                    }
                    Value::Object(m)
                }
                Def::Union(fields) => {
                    // prefer non-recursive variants once the budget is gone
                    let (f, fty) = if k.budget <= 0 || depth >= k.max_depth {
                        fields
                            .iter()
                            .find(|(_, ty)| matches!(ty, Ty::Prim(_)))
                            .unwrap_or(&fields[0])
                    } else {
                        t.pick(fields)
                    };
                    let mut v = self.gen_doc(fty, t, k, depth + 1);
                    if v.is_null() && !matches!(self.dealias(fty), Ty::Opt(_)) {
                        v = Value::Null;
                    }
                    let mut m = Map::new();
                    if t.chance(1, 4) {
                        m.insert(f.clone(), v);
                        m.insert("type".into(), Value::String(f.clone()));
                    } else {
                        m.insert("type".into(), Value::String(f.clone()));
                        m.insert(f.clone(), v);
                    }
                    Value::Object(m)
                }
            },
        }
    }
}

fn canonical_scalar(v: &Value) -> String {
    match v {
        Value::Number(n) => match n.as_f64() {
            Some(f) => format!("n{}", f),
            None => n.to_string(),
        },
        Value::String(s) => {
            // doubles as strings / numeric strings may collide with numbers
            match s.parse::<f64>() {
                Ok(f) => format!("n{}", f),
                Err(_) => format!("s{}", s),
            }
        }
        o => o.to_string(),
    }
}
