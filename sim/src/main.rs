//! verif-sim: deterministic simulation with fault injection for conjure-rust.
#![allow(clippy::all)]

pub mod body;
pub mod ctx;
pub mod exec;
pub mod faults;
pub mod gen;
pub mod glue;
#[allow(warnings)]
pub mod glue_gen;
pub mod ir;
pub mod judge;
pub mod mirror;
pub mod oracles;
pub mod pipe;
pub mod runner;
pub mod tape;
pub mod transport;
pub mod wire;
pub mod wire_enum;

#[allow(warnings)]
pub mod sim_ir {
    include!(concat!(env!("OUT_DIR"), "/sim_ir/mod.rs"));
}

use runner::{Engine, Opts};
use serde_json::Value;
use wire::{Profile, WireEngine};

fn engine_by_name(name: &str) -> Option<Box<dyn Engine>> {
    let e: Box<dyn Engine> = match name {
        "wire-c04" => Box::new(WireEngine { profile: Profile::C04, enumerate: false }),
        "wire-c05" => Box::new(WireEngine { profile: Profile::C05, enumerate: false }),
        "wire-c06" => Box::new(WireEngine { profile: Profile::C06, enumerate: false }),
        "wire-c06-enum" => Box::new(WireEngine { profile: Profile::C06, enumerate: true }),
        "wire-c07" => Box::new(WireEngine { profile: Profile::C07, enumerate: false }),
        "wire-c09" => Box::new(WireEngine { profile: Profile::C09, enumerate: false }),
        "wire-c18" => Box::new(WireEngine { profile: Profile::C18, enumerate: false }),
        "wire-c18-enum" => Box::new(WireEngine { profile: Profile::C18, enumerate: true }),
        "wire-c19" => Box::new(WireEngine { profile: Profile::C19, enumerate: false }),
        "gen-c20" => Box::new(gen::GenEngine { executions: 5 }),
        "pipe-c01" => Box::new(pipe::PipeEngine { profile: pipe::PipeProfile::C01 }),
        "pipe-c05" => Box::new(pipe::PipeEngine { profile: pipe::PipeProfile::C05 }),
        _ => return None,
    };
    Some(e)
}

fn env_u64(name: &str, default: u64) -> u64 {
    std::env::var(name).ok().and_then(|v| v.trim().parse().ok()).unwrap_or(default)
}

fn usage() -> ! {
    eprintln!("usage: verif-sim check <C04|C06|C07|C09|C18|C19> <quick|thorough> | replay <file> [--quiet] | digest <engine> <seed> <runs> <workers>");
    std::process::exit(2)
}

fn main() {
    runner::install_panic_hook();
    let args: Vec<String> = std::env::args().collect();
    if args.len() < 2 {
        usage();
    }
    match args[1].as_str() {
        "check" => {
            if args.len() < 4 {
                usage();
            }
            let prop = args[2].to_uppercase();
            let tier = args[3].clone();
            let thorough = tier == "thorough";
            let seed = env_u64("VERIF_SEED", 1);
            let workers = env_u64("VERIF_WORKERS", 16) as usize;
            // (engine, runs quick, runs thorough)
            let plan: Vec<(&str, u64, u64)> = match prop.as_str() {
                "C01" => vec![("pipe-c01", 100_000, 5_000_000)],
                "C05" => vec![("pipe-c05", 100_000, 5_000_000), ("wire-c05", 60_000, 2_000_000)],
                "C04" => vec![("wire-c04", 150_000, 6_000_000)],
                "C20" => vec![("gen-c20", 160, 6_000)],
                "C06" => vec![("wire-c06", 150_000, 4_000_000), ("wire-c06-enum", 2_000, 60_000)],
                "C07" => vec![("wire-c07", 60_000, 2_000_000)],
                "C09" => vec![("wire-c09", 150_000, 5_000_000)],
                "C18" => vec![("wire-c18", 150_000, 4_000_000), ("wire-c18-enum", 3_000, 120_000)],
                "C19" => vec![("wire-c19", 150_000, 5_000_000)],
                _ => usage(),
            };
            let property: &'static str = Box::leak(prop.clone().into_boxed_str());
            let mut exit = 0;
            let mut merged: Option<Value> = None;
            let t0 = std::time::Instant::now();
            for (ename, q, t) in plan.iter() {
                let engine = engine_by_name(ename).unwrap();
                let runs = env_u64("VERIF_RUNS", if thorough { *t } else { *q });
                let o = Opts {
                    property,
                    seed,
                    runs,
                    workers,
                    tier: tier.clone(),
                    max_wall_s: if thorough { 1500.0 } else { 120.0 },
                    level: if matches!(prop.as_str(), "C06" | "C18") { "fault_enumeration" } else { "exploration" },
                    det_runs: if *ename == "gen-c20" {
                        if thorough { 48 } else { 16 }
                    } else if ename.ends_with("-enum") {
                        if thorough { 300 } else { 60 }
                    } else if thorough {
                        20_000
                    } else {
                        3_000
                    },
                    evidence_path: String::new(),
                    extra: Value::Null,
                };
                let r = runner::check(&*engine, &o);
                if r.exit == 2 {
                    exit = 2;
                } else if r.exit == 1 && exit == 0 {
                    exit = 1;
                }
                if r.evidence.is_null() {
                    continue;
                }
                match &mut merged {
                    None => merged = Some(r.evidence),
                    Some(m) => {
                        // the enumeration engine's coverage rides along under its own key
                        let v = r.evidence["violations"].as_i64().unwrap_or(0) + m["violations"].as_i64().unwrap_or(0);
                        m["violations"] = Value::from(v);
                        m["coverage"][if ename.ends_with("-enum") { "fault_enumeration" } else { "http_surface" }] = r.evidence["coverage"].clone();
                        let mut a: Vec<Value> = m["assumptions"].as_array().cloned().unwrap_or_default();
                        for x in r.evidence["assumptions"].as_array().cloned().unwrap_or_default() {
                            if !a.contains(&x) {
                                a.push(x);
                            }
                        }
                        m["assumptions"] = Value::Array(a);
                    }
                }
            }
            if let Some(mut m) = merged {
                m["wall_s"] = Value::from(t0.elapsed().as_secs_f64());
                let dir = std::env::var("VERIF_EVIDENCE_DIR").unwrap_or_else(|_| "/verif/evidence".to_string());
                if !runner::write_evidence(&format!("{}/{}.json", dir, prop), &m) {
                    exit = 2;
                }
            }
            std::process::exit(exit);
        }
        "gen-lib" => {
            std::process::exit(gen::gen_lib_main(&args[2..]));
        }
        "scan" => {
            // development aid: list every violation kind of every property an engine produces
            let engine = engine_by_name(&args[2]).unwrap_or_else(|| usage());
            let runs: u64 = args.get(3).and_then(|v| v.parse().ok()).unwrap_or(20000);
            let seed = env_u64("VERIF_SEED", 1);
            let b = runner::run_batch(&*engine, seed, 0, runs, 16, 600.0, false);
            let mut seen = std::collections::BTreeMap::new();
            for f in &b.found {
                let e = seen.entry((f.property, f.kind.clone())).or_insert((0u64, f.run, f.detail.clone()));
                e.0 += 1;
            }
            for ((p, k), (n, run, d)) in seen {
                let d: String = d.chars().take(600).collect();
                println!("{} {} x{} first_run={} :: {}", p, k, n, run, d);
            }
            println!("runs={} wall={:.1}s", b.runs_done, b.wall_s);
        }
        "shard" => {
            // internal: one worker process of a batch (see runner::run_batch)
            if args.len() < 10 {
                usage();
            }
            let engine = engine_by_name(&args[2]).unwrap_or_else(|| usage());
            let n = |i: usize| -> u64 { args[i].parse().unwrap_or_else(|_| usage()) };
            let max_wall: f64 = args[8].parse().unwrap_or(600.0);
            let b = runner::run_shard(&*engine, n(3), n(4), n(5), n(6), n(7), max_wall, args[9] == "1");
            println!("{}", runner::batch_to_json(&b));
        }
        "trace" => {
            // development aid: the event log of one run index of an engine
            let engine = engine_by_name(&args[2]).unwrap_or_else(|| usage());
            let run: u64 = args.get(3).and_then(|v| v.parse().ok()).unwrap_or(0);
            let seed = env_u64("VERIF_SEED", 1);
            let tape = crate::tape::Tape::from_seed(runner::run_seed(seed, &*engine, run));
            let out = runner::exec_one(&*engine, tape, run % engine.variants(), true);
            for l in &out.log {
                println!("{}", l);
            }
            for (p, k, d) in &out.violations {
                println!("violation {} {} :: {}", p, k, d);
            }
        }
        "digest" => {
            if args.len() < 6 {
                usage();
            }
            let engine = engine_by_name(&args[2]).unwrap_or_else(|| usage());
            let seed: u64 = args[3].parse().unwrap();
            let runs: u64 = args[4].parse().unwrap();
            let workers: usize = args[5].parse().unwrap();
            let b = runner::run_batch(&*engine, seed, 0, runs, workers, 600.0, true);
            if b.found.iter().any(|f| f.property == "HARNESS" && f.kind == "shard_failed") {
                eprintln!("HARNESS-ERROR a shard process failed");
                std::process::exit(2);
            }
            println!("DIGEST {:016x}", runner::batch_digest(&b));
        }
        "replay" => {
            if args.len() < 3 {
                usage();
            }
            let quiet = args.iter().any(|a| a == "--quiet");
            let text = std::fs::read_to_string(&args[2]).unwrap_or_else(|e| {
                eprintln!("cannot read {}: {}", args[2], e);
                std::process::exit(2)
            });
            let j: Value = serde_json::from_str(&text).unwrap();
            let engine = engine_by_name(j["engine"].as_str().unwrap_or("")).unwrap_or_else(|| usage());
            let (rep, log, viols) = runner::replay_file(&*engine, &j);
            if !quiet {
                for l in &log {
                    println!("{}", l);
                }
                for (p, k, d) in &viols {
                    println!("violation {} {} :: {}", p, k, d);
                }
            }
            if rep {
                println!("VIOLATION property={} replay={}", j["property"].as_str().unwrap_or(""), args[2]);
                std::process::exit(1);
            } else {
                println!("replay did not reproduce {}", j["violation_kind"]);
                std::process::exit(0);
            }
        }
        _ => usage(),
    }
}
