//! verif-sim: deterministic simulation with fault injection for conjure-rust.
#![allow(clippy::all)]

pub mod body;
pub mod ctx;
pub mod exec;
pub mod faults;
pub mod glue;
#[allow(warnings)]
pub mod glue_gen;
pub mod ir;
pub mod judge;
pub mod oracles;
pub mod runner;
pub mod tape;
pub mod transport;
pub mod wire;
pub mod wire_enum;

#[allow(warnings)]
pub mod sim_ir {
    include!(concat!(env!("OUT_DIR"), "/sim_ir/mod.rs"));
}

use runner::{Engine, Opts};
use serde_json::Value;
use wire::{Profile, WireEngine};

fn engine_by_name(name: &str) -> Option<Box<dyn Engine>> {
    let e: Box<dyn Engine> = match name {
        "wire-c04" => Box::new(WireEngine { profile: Profile::C04, enumerate: false }),
        "wire-c06" => Box::new(WireEngine { profile: Profile::C06, enumerate: false }),
        "wire-c06-enum" => Box::new(WireEngine { profile: Profile::C06, enumerate: true }),
        "wire-c07" => Box::new(WireEngine { profile: Profile::C07, enumerate: false }),
        "wire-c09" => Box::new(WireEngine { profile: Profile::C09, enumerate: false }),
        "wire-c18" => Box::new(WireEngine { profile: Profile::C18, enumerate: false }),
        "wire-c18-enum" => Box::new(WireEngine { profile: Profile::C18, enumerate: true }),
        "wire-c19" => Box::new(WireEngine { profile: Profile::C19, enumerate: false }),
        _ => return None,
    };
    Some(e)
}

fn env_u64(name: &str, default: u64) -> u64 {
    std::env::var(name).ok().and_then(|v| v.trim().parse().ok()).unwrap_or(default)
}

fn usage() -> ! {
    eprintln!("usage: verif-sim check <C04|C06|C07|C09|C18|C19> <quick|thorough> | replay <file> [--quiet] | digest <engine> <seed> <runs> <workers>");
    std::process::exit(2)
}

fn main() {
    runner::install_panic_hook();
    let args: Vec<String> = std::env::args().collect();
    if args.len() < 2 {
        usage();
    }
    match args[1].as_str() {
        "check" => {
            if args.len() < 4 {
                usage();
            }
            let prop = args[2].to_uppercase();
            let tier = args[3].clone();
            let thorough = tier == "thorough";
            let seed = env_u64("VERIF_SEED", 1);
            let workers = env_u64("VERIF_WORKERS", 16) as usize;
            // (engine, runs quick, runs thorough)
            let plan: Vec<(&str, u64, u64)> = match prop.as_str() {
                "C04" => vec![("wire-c04", 150_000, 6_000_000)],
                "C06" => vec![("wire-c06", 150_000, 4_000_000)],
                "C07" => vec![("wire-c07", 60_000, 2_000_000)],
                "C09" => vec![("wire-c09", 150_000, 5_000_000)],
                "C18" => vec![("wire-c18", 150_000, 4_000_000)],
                "C19" => vec![("wire-c19", 150_000, 5_000_000)],
                _ => usage(),
            };
            let property: &'static str = Box::leak(prop.clone().into_boxed_str());
            let mut exit = 0;
            for (i, (ename, q, t)) in plan.iter().enumerate() {
                let engine = engine_by_name(ename).unwrap();
                let runs = env_u64("VERIF_RUNS", if thorough { *t } else { *q });
                let o = Opts {
                    property,
                    seed,
                    runs,
                    workers,
                    tier: tier.clone(),
                    max_wall_s: if thorough { 1500.0 } else { 120.0 },
                    level: "exploration",
                    det_runs: if thorough { 20_000 } else { 3_000 },
                    evidence_path: if i == 0 {
                        format!("/verif/evidence/{}.json", prop)
                    } else {
                        format!("/verif/evidence/{}.part{}.json", prop, i)
                    },
                    extra: Value::Null,
                };
                let r = runner::check(&*engine, &o);
                if r.exit == 2 {
                    exit = 2;
                } else if r.exit == 1 && exit == 0 {
                    exit = 1;
                }
            }
            std::process::exit(exit);
        }
        "scan" => {
            // development aid: list every violation kind of every property an engine produces
            let engine = engine_by_name(&args[2]).unwrap_or_else(|| usage());
            let runs: u64 = args.get(3).and_then(|v| v.parse().ok()).unwrap_or(20000);
            let seed = env_u64("VERIF_SEED", 1);
            let b = runner::run_batch(&*engine, seed, 0, runs, 16, 600.0, false);
            let mut seen = std::collections::BTreeMap::new();
            for f in &b.found {
                let e = seen.entry((f.property, f.kind.clone())).or_insert((0u64, f.run, f.detail.clone()));
                e.0 += 1;
            }
            for ((p, k), (n, run, d)) in seen {
                let d: String = d.chars().take(600).collect();
                println!("{} {} x{} first_run={} :: {}", p, k, n, run, d);
            }
            println!("runs={} wall={:.1}s", b.runs_done, b.wall_s);
        }
        "digest" => {
            if args.len() < 6 {
                usage();
            }
            let engine = engine_by_name(&args[2]).unwrap_or_else(|| usage());
            let seed: u64 = args[3].parse().unwrap();
            let runs: u64 = args[4].parse().unwrap();
            let workers: usize = args[5].parse().unwrap();
            let b = runner::run_batch(&*engine, seed, 0, runs, workers, 600.0, true);
            println!("DIGEST {:016x}", runner::batch_digest(&b));
        }
        "replay" => {
            if args.len() < 3 {
                usage();
            }
            let quiet = args.iter().any(|a| a == "--quiet");
            let text = std::fs::read_to_string(&args[2]).unwrap_or_else(|e| {
                eprintln!("cannot read {}: {}", args[2], e);
                std::process::exit(2)
            });
            let j: Value = serde_json::from_str(&text).unwrap();
            let engine = engine_by_name(j["engine"].as_str().unwrap_or("")).unwrap_or_else(|| usage());
            let (rep, log, viols) = runner::replay_file(&*engine, &j);
            if !quiet {
                for l in &log {
                    println!("{}", l);
                }
                for (p, k, d) in &viols {
                    println!("violation {} {} :: {}", p, k, d);
                }
            }
            if rep {
                println!("VIOLATION property={} replay={}", j["property"].as_str().unwrap_or(""), args[2]);
                std::process::exit(1);
            } else {
                println!("replay did not reproduce {}", j["violation_kind"]);
                std::process::exit(0);
            }
        }
        _ => usage(),
    }
}
