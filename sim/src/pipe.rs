//! pipe-sim: real Conjure serializers -> simulated byte pipe (Write / Read /
//! BufRead with segmentation, EINTR, hard errors, early EOF) -> real client and
//! server deserializers, optionally with a "newer schema version" peer that
//! writes members the reader does not declare.  Decides C01 and C05 on their
//! stream surfaces; the str/slice sources are the reference of the
//! differential oracle.

use crate::body::{SimWriter, WritePlan};
use crate::ctx::Ctx;
use crate::ir::{self, b64, ir, Def, Ty};
use crate::runner::{guarded, Engine};
use crate::tape::Tape;
use conjure_object::{BearerToken, DateTime, DoubleKey, ResourceIdentifier, SafeLong, Utc, Uuid};
use conjure_serde::{json, smile};
use serde::de::DeserializeOwned;
use serde::{Deserialize, Serialize};
use serde_bytes::ByteBuf;
use serde_json::{json, Value};
use std::collections::{BTreeMap, BTreeSet};
use std::fmt::Debug;
use std::io::{self, BufRead, Read};

// ------------------------------------------------------------- documents --

/// Encoding-neutral document, the common ground of the spec encoder and the
/// independent parsers (plain serde_json / serde_smile values).
#[derive(Clone, Debug)]
pub enum Doc {
    Null,
    Bool(bool),
    Int(i64),
    Float(f64),
    Str(String),
    Bin(Vec<u8>),
    Time(DateTime<Utc>),
    Arr(Vec<Doc>),
    Obj(Vec<(Key, Doc)>),
}

/// How a map key must be spelled.
#[derive(Clone, Debug)]
pub enum Key {
    Text(String),
    /// any decimal spelling of this double / the non-finite names
    Double(f64),
    Time(DateTime<Utc>),
}

#[derive(Clone, Copy, Debug, PartialEq, Eq)]
pub enum Mode {
    Json,
    Smile,
}

pub trait Spec {
    fn spec(&self, m: Mode) -> Doc;
    fn key(&self) -> Key {
        panic!("not a key type")
    }
}

fn f64_doc(v: f64, m: Mode) -> Doc {
    match m {
        Mode::Smile => Doc::Float(v),
        Mode::Json => {
            if v.is_nan() {
                Doc::Str("NaN".into())
            } else if v == f64::INFINITY {
                Doc::Str("Infinity".into())
            } else if v == f64::NEG_INFINITY {
                Doc::Str("-Infinity".into())
            } else {
                Doc::Float(v)
            }
        }
    }
}

fn from_json(v: &Value) -> Doc {
    match v {
        Value::Null => Doc::Null,
        Value::Bool(b) => Doc::Bool(*b),
        Value::Number(n) => match n.as_i64() {
            Some(i) => Doc::Int(i),
            None => Doc::Float(n.as_f64().unwrap_or(f64::NAN)),
        },
        Value::String(s) => Doc::Str(s.clone()),
        Value::Array(a) => Doc::Arr(a.iter().map(from_json).collect()),
        Value::Object(o) => Doc::Obj(o.iter().map(|(k, v)| (Key::Text(k.clone()), from_json(v))).collect()),
    }
}

fn from_smile(v: &serde_smile::value::Value) -> Doc {
    use serde_smile::value::Value as S;
    match v {
        S::Null => Doc::Null,
        S::Boolean(b) => Doc::Bool(*b),
        S::Integer(i) => Doc::Int(*i as i64),
        S::Long(i) => Doc::Int(*i),
        S::Float(f) => Doc::Float(*f as f64),
        S::Double(f) => Doc::Float(*f),
        S::String(s) => Doc::Str(s.clone()),
        S::Binary(b) => Doc::Bin(b.clone()),
        S::Array(a) => Doc::Arr(a.iter().map(from_smile).collect()),
        S::Object(o) => Doc::Obj(o.iter().map(|(k, v)| (Key::Text(k.clone()), from_smile(v))).collect()),
        _ => Doc::Str("<big number>".into()),
    }
}

fn double_text_ok(v: f64, s: &str) -> bool {
    if v.is_nan() {
        s == "NaN"
    } else if v == f64::INFINITY {
        s == "Infinity"
    } else if v == f64::NEG_INFINITY {
        s == "-Infinity"
    } else {
        !s.is_empty()
            && s.bytes().all(|b| b.is_ascii_digit() || b"+-.eE".contains(&b))
            && s.parse::<f64>().map(|p| p == v).unwrap_or(false)
    }
}

/// spec vs. what an independent parser saw; returns the first difference
fn doc_diff(spec: &Doc, got: &Doc, path: &str, ordered: bool) -> Option<String> {
    let bad = |what: &str| Some(format!("at {}: expected {} got {:?}", if path.is_empty() { "$" } else { path }, what, short(got)));
    match (spec, got) {
        (Doc::Null, Doc::Null) => None,
        (Doc::Bool(a), Doc::Bool(b)) if a == b => None,
        (Doc::Int(a), Doc::Int(b)) if a == b => None,
        (Doc::Float(a), Doc::Float(b)) if (a.is_nan() && b.is_nan()) || a == b => None,
        // a double with an integral value may be read back as an integer token by a generic parser
        (Doc::Float(a), Doc::Int(b)) if *a == *b as f64 => None,
        (Doc::Str(a), Doc::Str(b)) if a == b => None,
        (Doc::Bin(a), Doc::Bin(b)) if a == b => None,
        (Doc::Time(a), Doc::Str(b)) if b.parse::<DateTime<Utc>>().map(|d| d == *a).unwrap_or(false) => None,
        (Doc::Arr(a), Doc::Arr(b)) => {
            if a.len() != b.len() {
                return bad(&format!("array of {}", a.len()));
            }
            for (i, (x, y)) in a.iter().zip(b).enumerate() {
                if let Some(d) = doc_diff(x, y, &format!("{}[{}]", path, i), ordered) {
                    return Some(d);
                }
            }
            None
        }
        (Doc::Obj(a), Doc::Obj(b)) => {
            if a.len() != b.len() {
                return bad(&format!("object of {} members", a.len()));
            }
            let mut used = vec![false; b.len()];
            for (i, (k, v)) in a.iter().enumerate() {
                let matches = |gk: &Key| -> bool {
                    let Key::Text(g) = gk else { return false };
                    match k {
                        Key::Text(t) => t == g,
                        Key::Double(d) => double_text_ok(*d, g),
                        Key::Time(t) => g.parse::<DateTime<Utc>>().map(|d| d == *t).unwrap_or(false),
                    }
                };
                let found = if ordered {
                    if matches(&b[i].0) {
                        Some(i)
                    } else {
                        None
                    }
                } else {
                    (0..b.len()).find(|j| !used[*j] && matches(&b[*j].0))
                };
                match found {
                    None => return Some(format!("at {}: key {:?} missing or misspelled among {:?}", path, k, b.iter().map(|(k, _)| k).collect::<Vec<_>>())),
                    Some(j) => {
                        used[j] = true;
                        if let Some(d) = doc_diff(v, &b[j].1, &format!("{}.{:?}", path, k), ordered) {
                            return Some(d);
                        }
                    }
                }
            }
            None
        }
        (s, _) => bad(&short(s)),
    }
}

fn short(d: &Doc) -> String {
    let mut s = format!("{:?}", d);
    if s.len() > 120 {
        let mut c = 120;
        while !s.is_char_boundary(c) {
            c -= 1;
        }
        s.truncate(c);
        s.push('…');
    }
    s
}

// ------------------------------------------------------------ model types --

/// A double whose equality is the Conjure one (NaN equals NaN).
#[derive(Serialize, Deserialize, Clone, Copy, Debug)]
#[serde(transparent)]
pub struct D(pub f64);

impl PartialEq for D {
    fn eq(&self, o: &D) -> bool {
        (self.0.is_nan() && o.0.is_nan()) || self.0 == o.0
    }
}

impl Spec for D {
    fn spec(&self, m: Mode) -> Doc {
        f64_doc(self.0, m)
    }
}

#[derive(Serialize, Deserialize, Clone, Copy, Debug, PartialEq, Eq, PartialOrd, Ord)]
pub enum Color {
    Red,
    Green,
    #[serde(rename = "BLUE_GREEN")]
    BlueGreen,
}

macro_rules! spec_simple {
    ($t:ty, |$s:ident, $m:ident| $doc:expr, |$k:ident| $key:expr) => {
        impl Spec for $t {
            fn spec(&self, $m: Mode) -> Doc {
                let $s = self;
                $doc
            }
            fn key(&self) -> Key {
                let $k = self;
                $key
            }
        }
    };
}
spec_simple!(String, |s, _m| Doc::Str(s.clone()), |k| Key::Text(k.clone()));
spec_simple!(i32, |s, _m| Doc::Int(*s as i64), |k| Key::Text(k.to_string()));
spec_simple!(i64, |s, _m| Doc::Int(*s), |k| Key::Text(k.to_string()));
spec_simple!(bool, |s, _m| Doc::Bool(*s), |k| Key::Text(k.to_string()));
spec_simple!(SafeLong, |s, _m| Doc::Int(**s), |k| Key::Text((**k).to_string()));
spec_simple!(DoubleKey, |s, m| f64_doc(s.0, m), |k| Key::Double(k.0));
spec_simple!(
    Uuid,
    |s, m| match m {
        Mode::Json => Doc::Str(s.hyphenated().to_string()),
        Mode::Smile => Doc::Bin(s.as_bytes().to_vec()),
    },
    |k| Key::Text(k.hyphenated().to_string())
);
spec_simple!(ResourceIdentifier, |s, _m| Doc::Str(s.as_str().to_string()), |k| Key::Text(k.as_str().to_string()));
spec_simple!(BearerToken, |s, _m| Doc::Str(s.as_str().to_string()), |k| Key::Text(k.as_str().to_string()));
spec_simple!(DateTime<Utc>, |s, _m| Doc::Time(*s), |k| Key::Time(*k));
spec_simple!(
    ByteBuf,
    |s, m| match m {
        Mode::Json => Doc::Str(b64(s)),
        Mode::Smile => Doc::Bin(s.to_vec()),
    },
    |k| Key::Text(b64(k))
);
spec_simple!(
    Color,
    |s, _m| Doc::Str(match s {
        Color::Red => "Red".into(),
        Color::Green => "Green".into(),
        Color::BlueGreen => "BLUE_GREEN".into(),
    }),
    |k| Key::Text(match k {
        Color::Red => "Red".into(),
        Color::Green => "Green".into(),
        Color::BlueGreen => "BLUE_GREEN".into(),
    })
);

impl<T: Spec> Spec for Option<T> {
    fn spec(&self, m: Mode) -> Doc {
        match self {
            None => Doc::Null,
            Some(v) => v.spec(m),
        }
    }
}
impl<T: Spec> Spec for Box<T> {
    fn spec(&self, m: Mode) -> Doc {
        (**self).spec(m)
    }
}
impl<T: Spec> Spec for Vec<T> {
    fn spec(&self, m: Mode) -> Doc {
        Doc::Arr(self.iter().map(|v| v.spec(m)).collect())
    }
}
impl<T: Spec> Spec for BTreeSet<T> {
    fn spec(&self, m: Mode) -> Doc {
        Doc::Arr(self.iter().map(|v| v.spec(m)).collect())
    }
}
impl<K: Spec, V: Spec> Spec for BTreeMap<K, V> {
    fn spec(&self, m: Mode) -> Doc {
        Doc::Obj(self.iter().map(|(k, v)| (k.key(), v.spec(m))).collect())
    }
}
impl<A: Spec, B: Spec> Spec for (A, B) {
    fn spec(&self, m: Mode) -> Doc {
        Doc::Arr(vec![self.0.spec(m), self.1.spec(m)])
    }
}

/// A member the reader's schema does not declare (the newer peer's addition).
#[derive(Serialize, Deserialize, Clone, Debug, PartialEq)]
#[serde(untagged)]
pub enum Extra {
    Null(()),
    Num(i64),
    Text(String),
    List(Vec<Option<i32>>),
    Nested { d: f64, s: String },
}

pub struct GenCfg {
    pub budget: i64,
    pub wild: bool,
    /// probability (out of 16) that a struct node of the skewed family gets an extra member
    pub extra16: u64,
    pub extras_placed: Vec<String>,
    pub depth_cap: u32,
}

fn draw_extra(t: &mut Tape, g: &mut GenCfg, name: &str) -> Option<Extra> {
    if g.extra16 == 0 || !t.chance(g.extra16, 16) {
        return None;
    }
    g.extras_placed.push(name.to_string());
    Some(match t.draw(5) {
        0 => Extra::Null(()),
        1 => Extra::Num(t.draw(1000) as i64),
        2 => Extra::Text("NaN".into()),
        3 => Extra::List(vec![Some(1), None]),
        _ => Extra::Nested { d: 1.5, s: "x".into() },
    })
}

pub trait TGen: Sized {
    fn tgen(t: &mut Tape, g: &mut GenCfg, depth: u32) -> Self;
}

macro_rules! tgen_leaf {
    ($t:ty, |$tp:ident, $g:ident| $e:expr) => {
        impl TGen for $t {
            fn tgen($tp: &mut Tape, $g: &mut GenCfg, _d: u32) -> Self {
                $g.budget -= 1;
                $e
            }
        }
    };
}
tgen_leaf!(D, |t, _g| D(ir::gen_f64(t)));
tgen_leaf!(String, |t, g| {
    let max = *t.pick(&[4u64, 12, 12, 12, 80, 1500]);
    ir::gen_string(t, g.wild, max)
});
tgen_leaf!(i32, |t, _g| ir::gen_i32(t));
tgen_leaf!(i64, |t, _g| t.bits() as i64);
tgen_leaf!(bool, |t, _g| t.chance(1, 2));
tgen_leaf!(SafeLong, |t, _g| {
    let v = ir::gen_safelong(t);
    SafeLong::new(v).unwrap_or_else(|e| panic!("{}: SafeLong::new({}) failed: {}", crate::runner::VALID_VALUE_REFUSED, v, e))
});
tgen_leaf!(DoubleKey, |t, _g| DoubleKey(ir::gen_f64(t)));
tgen_leaf!(Uuid, |t, _g| Uuid::from_u128(((t.bits() as u128) << 64) | t.bits() as u128));
tgen_leaf!(ResourceIdentifier, |t, _g| {
    let s = ir::gen_rid_string(t, None);
    ResourceIdentifier::new(&s).unwrap_or_else(|e| panic!("{}: ResourceIdentifier::new({:?}) failed: {}", crate::runner::VALID_VALUE_REFUSED, s, e))
});
tgen_leaf!(BearerToken, |t, _g| {
    let s = ir::gen_token_string(t, None);
    BearerToken::new(&s).unwrap_or_else(|e| panic!("{}: BearerToken::new({:?}) failed: {}", crate::runner::VALID_VALUE_REFUSED, s, e))
});
tgen_leaf!(DateTime<Utc>, |t, _g| ir::gen_datetime_string(t).parse().unwrap());
tgen_leaf!(ByteBuf, |t, _g| {
    // heavy-tailed: encoders that work in blocks must also meet values longer than a block
    let max = *t.pick(&[4u64, 12, 12, 12, 100, 1100, 3200, 9000]);
    ByteBuf::from(ir::gen_bytes(t, max))
});
tgen_leaf!(Color, |t, _g| *t.pick(&[Color::Red, Color::Green, Color::BlueGreen]));

impl<T: TGen> TGen for Option<T> {
    fn tgen(t: &mut Tape, g: &mut GenCfg, d: u32) -> Self {
        if g.budget <= 0 || d >= g.depth_cap || t.chance(1, 3) {
            None
        } else {
            Some(T::tgen(t, g, d + 1))
        }
    }
}
/// A serde newtype struct that is not `transparent`: at the root of a document it enters the
/// deserializers through `deserialize_newtype_struct` (hand-written aliases look like this).
#[derive(Serialize, Deserialize, Clone, Debug, PartialEq)]
pub struct Nt<T>(pub T);

impl<T: TGen> TGen for Nt<T> {
    fn tgen(t: &mut Tape, g: &mut GenCfg, d: u32) -> Self {
        Nt(T::tgen(t, g, d))
    }
}
impl<T: Spec> Spec for Nt<T> {
    fn spec(&self, m: Mode) -> Doc {
        self.0.spec(m)
    }
}

impl<T: TGen> TGen for Box<T> {
    fn tgen(t: &mut Tape, g: &mut GenCfg, d: u32) -> Self {
        Box::new(T::tgen(t, g, d))
    }
}
fn coll_len(t: &mut Tape, g: &GenCfg, d: u32) -> u64 {
    if g.budget <= 0 || d >= g.depth_cap {
        0
    } else {
        t.size(4)
    }
}
impl<T: TGen> TGen for Vec<T> {
    fn tgen(t: &mut Tape, g: &mut GenCfg, d: u32) -> Self {
        (0..coll_len(t, g, d)).map(|_| T::tgen(t, g, d + 1)).collect()
    }
}
impl<T: TGen + Ord> TGen for BTreeSet<T> {
    fn tgen(t: &mut Tape, g: &mut GenCfg, d: u32) -> Self {
        (0..coll_len(t, g, d)).map(|_| T::tgen(t, g, d + 1)).collect()
    }
}
impl<K: TGen + Ord, V: TGen> TGen for BTreeMap<K, V> {
    fn tgen(t: &mut Tape, g: &mut GenCfg, d: u32) -> Self {
        (0..coll_len(t, g, d)).map(|_| (K::tgen(t, g, d + 1), V::tgen(t, g, d + 1))).collect()
    }
}
impl<A: TGen, B: TGen> TGen for (A, B) {
    fn tgen(t: &mut Tape, g: &mut GenCfg, d: u32) -> Self {
        (A::tgen(t, g, d), B::tgen(t, g, d))
    }
}

/// The recursive model family, instantiated twice: `plain` (the reader's
/// schema) and `skewed` (the newer peer: every struct may carry extra
/// members at the start, in the middle and at the end).
macro_rules! family {
    ($m:ident, [$($xa:ident)?], [$($xm:ident)?], [$($xz:ident)?]) => {
        pub mod $m {
            use super::*;

            #[derive(Serialize, Deserialize, Clone, Debug, PartialEq)]
            pub struct Leaf {
                $(#[serde(default, skip_serializing_if = "Option::is_none")] pub $xa: Option<Extra>,)?
                pub d: D,
                pub b: ByteBuf,
                $(#[serde(default, rename = "xm\"mid\\dle\n", skip_serializing_if = "Option::is_none")] pub $xm: Option<Extra>,)?
                pub s: String,
                pub i: i32,
                pub l: i64,
                pub f: bool,
                pub od: Option<D>,
                $(#[serde(default, skip_serializing_if = "Option::is_none")] pub $xz: Option<Extra>,)?
            }

            /// an object that declares no fields at all
            #[derive(Serialize, Deserialize, Clone, Debug, PartialEq)]
            pub struct Marker {
                $(#[serde(default, skip_serializing_if = "Option::is_none")] pub $xa: Option<Extra>,)?
                $(#[serde(default, skip_serializing_if = "Option::is_none")] pub $xz: Option<Extra>,)?
            }

            #[derive(Serialize, Deserialize, Clone, Debug, PartialEq)]
            pub struct Wrap(pub Leaf);

            #[derive(Serialize, Deserialize, Clone, Debug, PartialEq)]
            pub struct Ts(pub Leaf, pub D, pub ByteBuf);

            #[derive(Serialize, Deserialize, Clone, Debug, PartialEq)]
            pub enum Var {
                Unit,
                New(Leaf),
                Tup(Leaf, D),
                Struct { leaf: Leaf, n: D, bin: ByteBuf },
            }

            #[derive(Serialize, Deserialize, Clone, Debug, PartialEq)]
            pub struct Maps {
                $(#[serde(default, skip_serializing_if = "Option::is_none")] pub $xa: Option<Extra>,)?
                pub by_str: BTreeMap<String, Leaf>,
                pub by_i32: BTreeMap<i32, D>,
                pub by_long: BTreeMap<SafeLong, Leaf>,
                pub by_double: BTreeMap<DoubleKey, D>,
                pub by_bool: BTreeMap<bool, Leaf>,
                pub by_uuid: BTreeMap<Uuid, ByteBuf>,
                $(#[serde(default, skip_serializing_if = "Option::is_none")] pub $xm: Option<Extra>,)?
                pub by_rid: BTreeMap<ResourceIdentifier, D>,
                pub by_token: BTreeMap<BearerToken, Uuid>,
                pub by_time: BTreeMap<DateTime<Utc>, D>,
                pub by_bin: BTreeMap<ByteBuf, Leaf>,
                pub by_enum: BTreeMap<Color, Option<Leaf>>,
                pub nested: BTreeMap<String, BTreeMap<DoubleKey, Vec<Leaf>>>,
                pub doubles: Vec<D>,
                pub bins: BTreeSet<ByteBuf>,
                pub dset: BTreeSet<DoubleKey>,
                $(#[serde(default, skip_serializing_if = "Option::is_none")] pub $xz: Option<Extra>,)?
            }

            #[derive(Serialize, Deserialize, Clone, Debug, PartialEq)]
            pub struct Tree {
                $(#[serde(default, skip_serializing_if = "Option::is_none")] pub $xa: Option<Extra>,)?
                pub leaf: Leaf,
                pub kids: Vec<Tree>,
                pub opt: Option<Box<Tree>>,
                pub wrap: Option<Wrap>,
                $(#[serde(default, skip_serializing_if = "Option::is_none")] pub $xm: Option<Extra>,)?
                pub pair: Option<(Leaf, D)>,
                pub ts: Option<Ts>,
                pub var: Vec<Var>,
                pub maps: Option<Box<Maps>>,
                pub oo: Option<Vec<Option<Leaf>>>,
                pub marker: Option<Marker>,
                pub markers: BTreeMap<String, Vec<Marker>>,
                $(#[serde(default, skip_serializing_if = "Option::is_none")] pub $xz: Option<Extra>,)?
            }

            impl Leaf {
                pub fn strip(&self) -> super::plain::Leaf {
                    super::plain::Leaf { d: self.d, b: self.b.clone(), s: self.s.clone(), i: self.i, l: self.l, f: self.f, od: self.od }
                }
            }
            impl Var {
                pub fn strip(&self) -> super::plain::Var {
                    match self {
                        Var::Unit => super::plain::Var::Unit,
                        Var::New(l) => super::plain::Var::New(l.strip()),
                        Var::Tup(l, d) => super::plain::Var::Tup(l.strip(), *d),
                        Var::Struct { leaf, n, bin } => super::plain::Var::Struct { leaf: leaf.strip(), n: *n, bin: bin.clone() },
                    }
                }
            }
            impl Maps {
                pub fn strip(&self) -> super::plain::Maps {
                    super::plain::Maps {
                        by_str: self.by_str.iter().map(|(k, v)| (k.clone(), v.strip())).collect(),
                        by_i32: self.by_i32.clone(),
                        by_long: self.by_long.iter().map(|(k, v)| (*k, v.strip())).collect(),
                        by_double: self.by_double.clone(),
                        by_bool: self.by_bool.iter().map(|(k, v)| (*k, v.strip())).collect(),
                        by_uuid: self.by_uuid.clone(),
                        by_rid: self.by_rid.clone(),
                        by_token: self.by_token.clone(),
                        by_time: self.by_time.clone(),
                        by_bin: self.by_bin.iter().map(|(k, v)| (k.clone(), v.strip())).collect(),
                        by_enum: self.by_enum.iter().map(|(k, v)| (*k, v.as_ref().map(|l| l.strip()))).collect(),
                        nested: self.nested.iter().map(|(k, v)| (k.clone(), v.iter().map(|(k2, v2)| (*k2, v2.iter().map(|l| l.strip()).collect())).collect())).collect(),
                        doubles: self.doubles.clone(),
                        bins: self.bins.clone(),
                        dset: self.dset.clone(),
                    }
                }
            }
            impl Tree {
                pub fn strip(&self) -> super::plain::Tree {
                    super::plain::Tree {
                        leaf: self.leaf.strip(),
                        kids: self.kids.iter().map(|k| k.strip()).collect(),
                        opt: self.opt.as_ref().map(|t| Box::new(t.strip())),
                        wrap: self.wrap.as_ref().map(|w| super::plain::Wrap(w.0.strip())),
                        pair: self.pair.as_ref().map(|(l, d)| (l.strip(), *d)),
                        ts: self.ts.as_ref().map(|t| super::plain::Ts(t.0.strip(), t.1, t.2.clone())),
                        var: self.var.iter().map(|v| v.strip()).collect(),
                        maps: self.maps.as_ref().map(|m| Box::new(m.strip())),
                        oo: self.oo.as_ref().map(|v| v.iter().map(|o| o.as_ref().map(|l| l.strip())).collect()),
                        marker: self.marker.as_ref().map(|_| super::plain::Marker {}),
                        markers: self.markers.iter().map(|(k, v)| (k.clone(), v.iter().map(|_| super::plain::Marker {}).collect())).collect(),
                    }
                }
            }

            impl TGen for Leaf {
                fn tgen(t: &mut Tape, g: &mut GenCfg, d: u32) -> Self {
                    Leaf {
                        $($xa: draw_extra(t, g, stringify!($xa)),)?
                        d: TGen::tgen(t, g, d), b: TGen::tgen(t, g, d),
                        $($xm: draw_extra(t, g, stringify!($xm)),)?
                        s: TGen::tgen(t, g, d), i: TGen::tgen(t, g, d), l: TGen::tgen(t, g, d), f: TGen::tgen(t, g, d), od: TGen::tgen(t, g, d),
                        $($xz: draw_extra(t, g, stringify!($xz)),)?
                    }
                }
            }
            impl TGen for Marker {
                fn tgen(t: &mut Tape, g: &mut GenCfg, _d: u32) -> Self {
                    let _ = (&t, &g);
                    Marker {
                        $($xa: draw_extra(t, g, stringify!($xa)),)?
                        $($xz: draw_extra(t, g, stringify!($xz)),)?
                    }
                }
            }
            impl TGen for Wrap {
                fn tgen(t: &mut Tape, g: &mut GenCfg, d: u32) -> Self { Wrap(TGen::tgen(t, g, d)) }
            }
            impl TGen for Ts {
                fn tgen(t: &mut Tape, g: &mut GenCfg, d: u32) -> Self { Ts(TGen::tgen(t, g, d), TGen::tgen(t, g, d), TGen::tgen(t, g, d)) }
            }
            impl TGen for Var {
                fn tgen(t: &mut Tape, g: &mut GenCfg, d: u32) -> Self {
                    match t.draw(4) {
                        0 => Var::Unit,
                        1 => Var::New(TGen::tgen(t, g, d)),
                        2 => Var::Tup(TGen::tgen(t, g, d), TGen::tgen(t, g, d)),
                        _ => Var::Struct { leaf: TGen::tgen(t, g, d), n: TGen::tgen(t, g, d), bin: TGen::tgen(t, g, d) },
                    }
                }
            }
            impl TGen for Maps {
                fn tgen(t: &mut Tape, g: &mut GenCfg, d: u32) -> Self {
                    Maps {
                        $($xa: draw_extra(t, g, stringify!($xa)),)?
                        by_str: TGen::tgen(t, g, d), by_i32: TGen::tgen(t, g, d), by_long: TGen::tgen(t, g, d),
                        by_double: TGen::tgen(t, g, d), by_bool: TGen::tgen(t, g, d), by_uuid: TGen::tgen(t, g, d),
                        $($xm: draw_extra(t, g, stringify!($xm)),)?
                        by_rid: TGen::tgen(t, g, d), by_token: TGen::tgen(t, g, d), by_time: TGen::tgen(t, g, d),
                        by_bin: TGen::tgen(t, g, d), by_enum: TGen::tgen(t, g, d), nested: TGen::tgen(t, g, d),
                        doubles: TGen::tgen(t, g, d), bins: TGen::tgen(t, g, d), dset: TGen::tgen(t, g, d),
                        $($xz: draw_extra(t, g, stringify!($xz)),)?
                    }
                }
            }
            impl TGen for Tree {
                fn tgen(t: &mut Tape, g: &mut GenCfg, d: u32) -> Self {
                    g.budget -= 1;
                    Tree {
                        $($xa: draw_extra(t, g, stringify!($xa)),)?
                        leaf: TGen::tgen(t, g, d), kids: TGen::tgen(t, g, d), opt: TGen::tgen(t, g, d), wrap: TGen::tgen(t, g, d),
                        $($xm: draw_extra(t, g, stringify!($xm)),)?
                        pair: TGen::tgen(t, g, d), ts: TGen::tgen(t, g, d), var: TGen::tgen(t, g, d), maps: TGen::tgen(t, g, d), oo: TGen::tgen(t, g, d),
                        marker: TGen::tgen(t, g, d), markers: TGen::tgen(t, g, d),
                        $($xz: draw_extra(t, g, stringify!($xz)),)?
                    }
                }
            }

            fn obj(fields: Vec<(&str, Doc)>) -> Doc {
                Doc::Obj(fields.into_iter().map(|(k, v)| (Key::Text(k.to_string()), v)).collect())
            }
            impl Spec for Leaf {
                fn spec(&self, m: Mode) -> Doc {
                    obj(vec![("d", self.d.spec(m)), ("b", self.b.spec(m)), ("s", self.s.spec(m)), ("i", self.i.spec(m)), ("l", self.l.spec(m)), ("f", self.f.spec(m)), ("od", self.od.spec(m))])
                }
            }
            impl Spec for Marker {
                fn spec(&self, _m: Mode) -> Doc { Doc::Obj(vec![]) }
            }
            impl Spec for Wrap {
                fn spec(&self, m: Mode) -> Doc { self.0.spec(m) }
            }
            impl Spec for Ts {
                fn spec(&self, m: Mode) -> Doc { Doc::Arr(vec![self.0.spec(m), self.1.spec(m), self.2.spec(m)]) }
            }
            impl Spec for Var {
                fn spec(&self, m: Mode) -> Doc {
                    match self {
                        Var::Unit => Doc::Str("Unit".into()),
                        Var::New(l) => obj(vec![("New", l.spec(m))]),
                        Var::Tup(l, d) => obj(vec![("Tup", Doc::Arr(vec![l.spec(m), d.spec(m)]))]),
                        Var::Struct { leaf, n, bin } => obj(vec![("Struct", obj(vec![("leaf", leaf.spec(m)), ("n", n.spec(m)), ("bin", bin.spec(m))]))]),
                    }
                }
            }
            impl Spec for Maps {
                fn spec(&self, m: Mode) -> Doc {
                    obj(vec![
                        ("by_str", self.by_str.spec(m)), ("by_i32", self.by_i32.spec(m)), ("by_long", self.by_long.spec(m)),
                        ("by_double", self.by_double.spec(m)), ("by_bool", self.by_bool.spec(m)), ("by_uuid", self.by_uuid.spec(m)),
                        ("by_rid", self.by_rid.spec(m)), ("by_token", self.by_token.spec(m)), ("by_time", self.by_time.spec(m)),
                        ("by_bin", self.by_bin.spec(m)), ("by_enum", self.by_enum.spec(m)), ("nested", self.nested.spec(m)),
                        ("doubles", self.doubles.spec(m)), ("bins", self.bins.spec(m)), ("dset", self.dset.spec(m)),
                    ])
                }
            }
            impl Spec for Tree {
                fn spec(&self, m: Mode) -> Doc {
                    obj(vec![
                        ("leaf", self.leaf.spec(m)), ("kids", self.kids.spec(m)), ("opt", self.opt.spec(m)), ("wrap", self.wrap.spec(m)),
                        ("pair", self.pair.spec(m)), ("ts", self.ts.spec(m)), ("var", self.var.spec(m)), ("maps", self.maps.spec(m)), ("oo", self.oo.spec(m)), ("marker", self.marker.spec(m)), ("markers", self.markers.spec(m)),
                    ])
                }
            }
        }
    };
}

family!(plain, [], [], []);
family!(skewed, [xa_first], [xm_middle], [xz_last]);

// ----------------------------------------------------------------- readers --

#[derive(Clone, Debug, Default)]
pub struct ReadPlan {
    pub quanta: Vec<u32>,
    pub fail_at: Option<usize>,
    pub eof_at: Option<usize>,
}

impl ReadPlan {
    pub fn draw(t: &mut Tape, len: usize, faults: bool) -> ReadPlan {
        let mut p = ReadPlan::default();
        match t.draw(4) {
            0 => {}
            1 => p.quanta.push(1),
            _ => {
                for _ in 0..1 + t.draw(4) {
                    p.quanta.push(match t.draw(5) {
                        0 => 0,
                        1 => 1,
                        2 => 2 + t.draw(6) as u32,
                        _ => 8 + t.draw(120) as u32,
                    });
                }
                if p.quanta.iter().all(|q| *q == 0) {
                    p.quanta.push(1);
                }
            }
        }
        if faults {
            match t.draw(3) {
                0 => p.fail_at = Some(t.draw(len as u64 + 1) as usize),
                1 => p.eof_at = Some(t.draw(len.max(1) as u64) as usize),
                _ => {}
            }
        }
        p
    }
    pub fn describe(&self) -> String {
        format!("quanta={:?} fail_at={:?} eof_at={:?}", self.quanta, self.fail_at, self.eof_at)
    }
}

pub struct SimReader {
    data: Vec<u8>,
    pos: usize,
    plan: ReadPlan,
    calls: usize,
    pub eintr: u32,
    pub failed: bool,
    pub short: u32,
    window: usize,
}

impl SimReader {
    pub fn new(data: Vec<u8>, plan: ReadPlan) -> SimReader {
        SimReader {
            data,
            pos: 0,
            plan,
            calls: 0,
            eintr: 0,
            failed: false,
            short: 0,
            window: 0,
        }
    }

    fn limit(&self) -> usize {
        self.plan.eof_at.map(|e| e.min(self.data.len())).unwrap_or(self.data.len())
    }

    /// decides how many bytes the next read / fill_buf call exposes
    fn next_quantum(&mut self) -> io::Result<usize> {
        let end = self.limit();
        if let Some(at) = self.plan.fail_at {
            if self.pos >= at {
                self.failed = true;
                return Err(io::Error::new(io::ErrorKind::ConnectionReset, "simulated read failure"));
            }
        }
        if self.pos >= end {
            return Ok(0);
        }
        let q = if self.plan.quanta.is_empty() {
            u32::MAX
        } else {
            let q = self.plan.quanta[self.calls % self.plan.quanta.len()];
            self.calls += 1;
            q
        };
        if q == 0 {
            self.eintr += 1;
            return Err(io::Error::new(io::ErrorKind::Interrupted, "simulated EINTR"));
        }
        let mut n = (end - self.pos).min(q as usize);
        if let Some(at) = self.plan.fail_at {
            n = n.min(at - self.pos).max(1);
        }
        if n < end - self.pos {
            self.short += 1;
        }
        Ok(n)
    }
}

impl Read for SimReader {
    fn read(&mut self, buf: &mut [u8]) -> io::Result<usize> {
        if buf.is_empty() {
            return Ok(0);
        }
        if self.window > 0 {
            // bytes already exposed by fill_buf
            let n = self.window.min(buf.len());
            buf[..n].copy_from_slice(&self.data[self.pos..self.pos + n]);
            self.pos += n;
            self.window -= n;
            return Ok(n);
        }
        let n = self.next_quantum()?.min(buf.len());
        buf[..n].copy_from_slice(&self.data[self.pos..self.pos + n]);
        self.pos += n;
        Ok(n)
    }
}

impl BufRead for SimReader {
    fn fill_buf(&mut self) -> io::Result<&[u8]> {
        if self.window == 0 {
            self.window = self.next_quantum()?;
        }
        Ok(&self.data[self.pos..self.pos + self.window])
    }

    fn consume(&mut self, amt: usize) {
        let amt = amt.min(self.window);
        self.pos += amt;
        self.window -= amt;
    }
}

// ------------------------------------------------------------------ engine --

#[derive(Clone, Copy, PartialEq, Eq)]
pub enum PipeProfile {
    C01,
    C05,
}

pub struct PipeEngine {
    pub profile: PipeProfile,
}

fn ser_json<T: Serialize>(v: &T, pretty: bool) -> Result<Vec<u8>, String> {
    if pretty {
        let mut buf = Vec::new();
        let mut s = json::Serializer::pretty(&mut buf);
        v.serialize(&mut s).map_err(|e| e.to_string())?;
        Ok(buf)
    } else {
        json::to_vec(v).map_err(|e| e.to_string())
    }
}

/// One deserialization attempt through a drawn source; `None` result = Err.
#[derive(Clone, Copy, Debug, PartialEq, Eq)]
enum Source {
    Str,
    Slice,
    MutSlice,
    Reader,
}

fn de<T: DeserializeOwned>(mode: Mode, server: bool, src: Source, bytes: &[u8], plan: ReadPlan) -> (Result<T, String>, SimStats) {
    let mut stats = SimStats::default();
    let r: Result<T, String> = match (mode, src) {
        (Mode::Json, Source::Str) => match std::str::from_utf8(bytes) {
            Ok(s) => {
                if server {
                    json::server_from_str(s).map_err(|e| e.to_string())
                } else {
                    json::client_from_str(s).map_err(|e| e.to_string())
                }
            }
            Err(e) => Err(format!("not utf-8: {}", e)),
        },
        (Mode::Json, Source::Slice) | (Mode::Json, Source::MutSlice) => {
            if server {
                json::server_from_slice(bytes).map_err(|e| e.to_string())
            } else {
                json::client_from_slice(bytes).map_err(|e| e.to_string())
            }
        }
        (Mode::Json, Source::Reader) => {
            let mut rd = SimReader::new(bytes.to_vec(), plan);
            let r = if server {
                json::server_from_reader(&mut rd).map_err(|e| e.to_string())
            } else {
                json::client_from_reader(&mut rd).map_err(|e| e.to_string())
            };
            stats = SimStats {
                eintr: rd.eintr,
                failed: rd.failed,
                short: rd.short,
            };
            r
        }
        (Mode::Smile, Source::Slice) | (Mode::Smile, Source::Str) => {
            if server {
                smile::server_from_slice(bytes).map_err(|e| e.to_string())
            } else {
                smile::client_from_slice(bytes).map_err(|e| e.to_string())
            }
        }
        (Mode::Smile, Source::MutSlice) => {
            let mut copy = bytes.to_vec();
            if server {
                smile::server_from_mut_slice(&mut copy).map_err(|e| e.to_string())
            } else {
                smile::client_from_mut_slice(&mut copy).map_err(|e| e.to_string())
            }
        }
        (Mode::Smile, Source::Reader) => {
            let mut rd = SimReader::new(bytes.to_vec(), plan);
            let r = if server {
                smile::server_from_reader(&mut rd).map_err(|e| e.to_string())
            } else {
                smile::client_from_reader(&mut rd).map_err(|e| e.to_string())
            };
            stats = SimStats {
                eintr: rd.eintr,
                failed: rd.failed,
                short: rd.short,
            };
            r
        }
    };
    (r, stats)
}

#[derive(Default, Clone, Copy)]
struct SimStats {
    eintr: u32,
    failed: bool,
    short: u32,
}

fn clip(s: &str) -> String {
    static NOCLIP: std::sync::OnceLock<bool> = std::sync::OnceLock::new();
    if s.len() <= 300 || *NOCLIP.get_or_init(|| std::env::var_os("VERIF_NOCLIP").is_some()) {
        s.to_string()
    } else {
        let mut c = 300;
        while !s.is_char_boundary(c) {
            c -= 1;
        }
        format!("{}…[{}B]", &s[..c], s.len())
    }
}

fn size_class(n: usize) -> &'static str {
    match n {
        0..=15 => "b<16",
        16..=63 => "b<64",
        64..=255 => "b<256",
        256..=1023 => "b<1k",
        1024..=4095 => "b<4k",
        _ => "b>=4k",
    }
}

fn show(bytes: &[u8]) -> String {
    clip(&String::from_utf8_lossy(bytes))
}

impl PipeEngine {
    /// C01 on one value of the model family.
    fn c01_model(&self, ctx: &Ctx, faults: bool) {
        let mut g = GenCfg {
            budget: ctx.with_tape(|t| *t.pick(&[1i64, 6, 20, 60, 200, 400])),
            wild: ctx.chance(1, 2),
            extra16: 0,
            extras_placed: vec![],
            depth_cap: ctx.with_tape(|t| *t.pick(&[2u32, 4, 8, 30])),
        };
        // the root of a document is not always a struct: optionals, collections, maps and bare
        // leaves at the top level take other paths through the serializers
        macro_rules! root {
            ($ty:ty, $what:expr) => {{
                let v: $ty = ctx.with_tape(|t| TGen::tgen(t, &mut g, 0));
                ctx.count("probe.c01_root_not_a_struct");
                self.c01_value(ctx, &v, faults, $what);
            }};
        }
        match ctx.draw(14) {
            0 => root!(Option<D>, "root optional<double>"),
            1 => root!(Option<ByteBuf>, "root optional<binary>"),
            2 => root!(Option<BTreeMap<DoubleKey, Option<D>>>, "root optional<map<double,optional<double>>>"),
            3 => root!(Option<BTreeMap<bool, ByteBuf>>, "root optional<map<boolean,binary>>"),
            4 => root!(Vec<Option<D>>, "root list<optional<double>>"),
            5 => root!(BTreeMap<ByteBuf, D>, "root map<binary,double>"),
            6 => root!(D, "root double"),
            7 => root!(ByteBuf, "root binary"),
            8 => root!(Option<BTreeMap<String, Vec<Option<ByteBuf>>>>, "root optional<map<string,list<optional<binary>>>>"),
            9 => root!(Option<Vec<SafeLong>>, "root optional<list<safelong>>"),
            11 => match ctx.draw(9) {
                // bare leaves of every kind at the root
                0 => root!(Uuid, "root uuid"),
                1 => root!(Option<Uuid>, "root optional<uuid>"),
                2 => root!(ResourceIdentifier, "root rid"),
                3 => root!(BearerToken, "root bearertoken"),
                4 => root!(DateTime<Utc>, "root datetime"),
                5 => root!(SafeLong, "root safelong"),
                6 => root!(String, "root string"),
                7 => root!(Color, "root enum"),
                _ => root!(bool, "root boolean"),
            },
            10 => match ctx.draw(6) {
                0 => root!(Nt<D>, "root newtype(double)"),
                1 => root!(Nt<ByteBuf>, "root newtype(binary)"),
                2 => root!(Nt<BTreeMap<DoubleKey, D>>, "root newtype(map<double,double>)"),
                3 => root!(Nt<BTreeMap<bool, ByteBuf>>, "root newtype(map<boolean,binary>)"),
                4 => root!(Nt<Vec<Nt<D>>>, "root newtype(list<newtype(double)>)"),
                _ => root!(Nt<Option<BTreeMap<ByteBuf, D>>>, "root newtype(optional<map<binary,double>>)"),
            },
            _ => {
                let v: plain::Tree = ctx.with_tape(|t| TGen::tgen(t, &mut g, 0));
                self.c01_value(ctx, &v, faults, "model::Tree");
            }
        }
    }

    fn c01_value<T>(&self, ctx: &Ctx, v: &T, faults: bool, what: &str)
    where
        T: Serialize + DeserializeOwned + PartialEq + Debug + Spec,
    {
        let mode = if ctx.chance(1, 2) { Mode::Json } else { Mode::Smile };
        let pretty = mode == Mode::Json && ctx.chance(1, 3);
        ctx.sig(match (mode, pretty) {
            (Mode::Json, false) => "json",
            (Mode::Json, true) => "json-pretty",
            _ => "smile",
        });
        // ---- serialize: reference bytes
        let reference = match guarded(|| match mode {
            Mode::Json => ser_json(v, pretty),
            Mode::Smile => smile::to_vec(v).map_err(|e| e.to_string()),
        }) {
            Ok(Ok(b)) => b,
            Ok(Err(e)) => {
                ctx.violation("C01", format!("serialize_failed:{:?}", mode), format!("{}: {} :: {:?}", what, e, clip(&format!("{:?}", v))));
                return;
            }
            Err(p) => {
                ctx.violation("C01", format!("serialize_panic:{:?}", mode), p);
                return;
            }
        };
        ctx.log(|| format!("value {} mode={:?} pretty={} bytes={}B {:?}", what, mode, pretty, reference.len(), show(&reference)));
        ctx.sig(what);
        ctx.sig(size_class(reference.len()));
        // (a) writer schedules
        if mode == Mode::Json && !pretty {
            match json::to_string(v) {
                Ok(s) if s.as_bytes() == &reference[..] => {}
                Ok(s) => ctx.violation("C01", "to_string_differs_from_to_vec", format!("{:?} vs {:?}", clip(&s), show(&reference))),
                Err(e) => ctx.violation("C01", "to_string_failed", e.to_string()),
            }
        }
        {
            let wp = ctx.with_tape(|t| WritePlan::draw(t, faults));
            let fail_planned = wp.fail_at;
            let mut w = SimWriter::new(wp.clone());
            let r = guarded(|| match (mode, pretty) {
                (Mode::Json, false) => json::to_writer(&mut w, v).map_err(|e| e.to_string()),
                (Mode::Json, true) => {
                    let mut s = json::Serializer::pretty(&mut w);
                    v.serialize(&mut s).map_err(|e| e.to_string())
                }
                (Mode::Smile, _) => smile::to_writer(&mut w, v).map_err(|e| e.to_string()),
            });
            if w.short > 0 {
                ctx.count_n("fault.short_write_fired", w.short as u64);
                ctx.mark_nontrivial();
            }
            if w.eintr > 0 {
                ctx.count_n("fault.eintr_write_fired", w.eintr as u64);
                ctx.mark_nontrivial();
            }
            match r {
                Err(p) => ctx.violation("C01", "to_writer_panic", p),
                Ok(Ok(())) => {
                    if w.failed {
                        ctx.violation("C01", "to_writer_ok_after_write_error", format!("writer plan {:?}", wp));
                    } else if w.buf != reference {
                        ctx.violation(
                            "C01",
                            format!("to_writer_differs_from_to_vec:{:?}", mode),
                            format!("plan {:?}: wrote {}B {:?} vs to_vec {}B {:?}", wp, w.buf.len(), show(&w.buf), reference.len(), show(&reference)),
                        );
                    }
                }
                Ok(Err(_)) => {
                    if w.failed {
                        ctx.count("fault.write_error_fired");
                        ctx.mark_nontrivial();
                    } else if fail_planned.is_none() {
                        ctx.violation("C01", format!("to_writer_failed_without_fault:{:?}", mode), format!("plan {:?}", wp));
                    }
                }
            }
        }
        // (c) the independent parsers agree with the specification
        let parsed = match mode {
            Mode::Json => serde_json::from_slice::<Value>(&reference).map(|j| from_json(&j)).map_err(|e| e.to_string()),
            Mode::Smile => serde_smile::from_slice::<serde_smile::value::Value>(&reference)
                .map(|s| from_smile(&s))
                .map_err(|e| e.to_string()),
        };
        match parsed {
            Err(e) => ctx.violation("C01", format!("output_not_standard:{:?}", mode), format!("{} :: {:?}", e, show(&reference))),
            Ok(doc) => {
                if let Some(d) = doc_diff(&v.spec(mode), &doc, "", mode == Mode::Smile) {
                    let class = if d.contains("key") { "key_spelling" } else { "value_encoding" };
                    ctx.violation("C01", format!("wire_form:{}:{:?}", class, mode), format!("{} :: {:?}", d, show(&reference)));
                }
            }
        }
        // a multi-step sequence: first a damaged copy of the document is read (and refused or not —
        // the result does not matter), then the intact document; nothing may carry over
        if faults && ctx.chance(1, 3) && !reference.is_empty() {
            let mut damaged = reference.clone();
            for _ in 0..1 + ctx.draw(3) {
                let i = ctx.draw(damaged.len() as u64) as usize;
                match ctx.draw(3) {
                    0 => damaged[i] ^= 1 << ctx.draw(8),
                    1 => damaged[i] = ctx.with_tape(|t| *t.pick(b"=!\"\\x0 ")),
                    _ => {
                        damaged.truncate(i);
                        if damaged.is_empty() {
                            break;
                        }
                    }
                }
            }
            let server = ctx.chance(1, 2);
            let _ = guarded(|| de::<T>(mode, server, Source::Slice, &damaged, ReadPlan::default()).0.is_ok());
            ctx.count("fault.damaged_read_before_round_trip");
            ctx.sig("damaged-first");
            ctx.mark_nontrivial();
        }
        // (b)/(d) every source x role
        for server in [false, true] {
            for src in [Source::Str, Source::Slice, Source::MutSlice, Source::Reader] {
                if mode == Mode::Smile && src == Source::Str {
                    continue;
                }
                if mode == Mode::Json && src == Source::MutSlice {
                    continue;
                }
                let plan = if src == Source::Reader {
                    ctx.with_tape(|t| ReadPlan::draw(t, reference.len(), faults))
                } else {
                    ReadPlan::default()
                };
                let pdesc = plan.describe();
                let truncated = plan.eof_at.map(|e| e < reference.len()).unwrap_or(false);
                // (a bare number at the root: some of its prefixes are numbers too)
                let prefix_is_a_document = truncated
                    && plan.eof_at.map_or(false, |e| match mode {
                        Mode::Json => crate::judge::json_one_doc(&reference[..e]).is_some(),
                        Mode::Smile => crate::judge::smile_one_doc(&reference[..e]),
                    });
                let r = guarded(|| de::<T>(mode, server, src, &reference, plan));
                let role = if server { "server" } else { "client" };
                match r {
                    Err(p) => ctx.violation("C01", format!("deserialize_panic:{:?}:{}:{:?}", mode, role, src), p),
                    Ok((res, stats)) => {
                        if stats.short > 0 {
                            ctx.count_n("fault.short_read_fired", stats.short as u64);
                            ctx.mark_nontrivial();
                            ctx.sig("short_read");
                        }
                        if stats.eintr > 0 {
                            ctx.count_n("fault.eintr_read_fired", stats.eintr as u64);
                            ctx.mark_nontrivial();
                            ctx.sig("eintr_read");
                        }
                        if stats.failed {
                            ctx.count("fault.read_error_fired");
                            ctx.mark_nontrivial();
                            ctx.sig(if server { "read_error_server" } else { "read_error_client" });
                        }
                        if truncated {
                            ctx.count("fault.early_eof_fired");
                            ctx.mark_nontrivial();
                            ctx.sig(if server { "eof_server" } else { "eof_client" });
                        }
                        match res {
                            Ok(back) => {
                                if stats.failed {
                                    ctx.violation("C01", format!("value_after_read_error:{:?}:{}", mode, role), format!("reader {}", pdesc));
                                } else if truncated {
                                    // a prefix may be a complete document only for trivial values
                                    if prefix_is_a_document {
                                        ctx.count("probe.c01_truncated_prefix_is_itself_a_document");
                                    } else if back != *v {
                                        ctx.violation("C01", format!("value_from_truncated_input:{:?}:{}", mode, role), format!("reader {} gave {:?}", pdesc, clip(&format!("{:?}", back))));
                                    }
                                } else if back != *v {
                                    ctx.violation(
                                        "C01",
                                        format!("round_trip_differs:{:?}:{}:{:?}", mode, role, src),
                                        format!("{}: reader {} bytes {:?}: gave {:?} for {:?}", what, pdesc, show(&reference), clip(&format!("{:?}", back)), clip(&format!("{:?}", v))),
                                    );
                                }
                            }
                            Err(e) => {
                                let faulty = stats.failed || truncated || stats.eintr > 0;
                                if !faulty {
                                    ctx.violation(
                                        "C01",
                                        format!("round_trip_rejected:{:?}:{}:{:?}", mode, role, src),
                                        format!("{}: reader {}: {} :: bytes {:?}", what, pdesc, e, show(&reference)),
                                    );
                                }
                            }
                        }
                    }
                }
            }
        }
    }

    /// C05 on the model family: the newer peer's document, produced by the
    /// real serializers.
    fn c05_model(&self, ctx: &Ctx, faults: bool) {
        let mut g = GenCfg {
            budget: ctx.with_tape(|t| *t.pick(&[1i64, 6, 20, 60, 200])),
            wild: ctx.chance(1, 2),
            extra16: ctx.with_tape(|t| *t.pick(&[1u64, 2, 4, 16])),
            extras_placed: vec![],
            depth_cap: ctx.with_tape(|t| *t.pick(&[2u32, 4, 8])),
        };
        // the root of the document: the tree, or one of its parts on its own - a newtype, an enum,
        // a bare object, collections of objects
        match ctx.draw(10) {
            0 => {
                let newer: skewed::Wrap = ctx.with_tape(|t| TGen::tgen(t, &mut g, 0));
                let expected = plain::Wrap(newer.0.strip());
                self.c05_skewed(ctx, &g, &newer, &expected, faults, "model::Wrap (root newtype)")
            }
            1 => {
                let newer: Nt<skewed::Leaf> = ctx.with_tape(|t| TGen::tgen(t, &mut g, 0));
                let expected = Nt(newer.0.strip());
                self.c05_skewed(ctx, &g, &newer, &expected, faults, "root newtype(Leaf)")
            }
            2 => {
                let newer: skewed::Var = ctx.with_tape(|t| TGen::tgen(t, &mut g, 0));
                let expected = newer.strip();
                self.c05_skewed(ctx, &g, &newer, &expected, faults, "model::Var (root enum)")
            }
            3 => {
                let newer: Vec<Option<skewed::Leaf>> = ctx.with_tape(|t| TGen::tgen(t, &mut g, 0));
                let expected: Vec<Option<plain::Leaf>> = newer.iter().map(|l| l.as_ref().map(|l| l.strip())).collect();
                self.c05_skewed(ctx, &g, &newer, &expected, faults, "root list<optional<Leaf>>")
            }
            4 => {
                let newer: BTreeMap<String, Nt<skewed::Leaf>> = ctx.with_tape(|t| TGen::tgen(t, &mut g, 0));
                let expected: BTreeMap<String, Nt<plain::Leaf>> = newer.iter().map(|(k, l)| (k.clone(), Nt(l.0.strip()))).collect();
                self.c05_skewed(ctx, &g, &newer, &expected, faults, "root map<string,newtype(Leaf)>")
            }
            _ => {
                let newer: skewed::Tree = ctx.with_tape(|t| TGen::tgen(t, &mut g, 0));
                let expected = newer.strip();
                self.c05_skewed(ctx, &g, &newer, &expected, faults, "model::Tree")
            }
        }
    }

    fn c05_skewed<N, P>(&self, ctx: &Ctx, g: &GenCfg, newer: &N, expected: &P, faults: bool, what: &str)
    where
        N: Serialize + DeserializeOwned + Debug,
        P: DeserializeOwned + PartialEq + Debug,
    {
        let mode = if ctx.chance(1, 2) { Mode::Json } else { Mode::Smile };
        let pretty = mode == Mode::Json && ctx.chance(1, 4);
        let bytes = match mode {
            Mode::Json => ser_json(newer, pretty),
            Mode::Smile => smile::to_vec(newer).map_err(|e| e.to_string()),
        };
        let Ok(bytes) = bytes else {
            ctx.violation("C05", "skewed_serialize_failed", format!("{:?}", bytes.err()));
            return;
        };
        ctx.sig(what);
        ctx.sig(if mode == Mode::Json { "json" } else { "smile" });
        ctx.sig(size_class(bytes.len()));
        for x in &g.extras_placed {
            ctx.sig(x);
        }
        ctx.sig(match g.extras_placed.len() {
            0 => "x0",
            1 => "x1",
            2 => "x2",
            _ => "x3+",
        });
        ctx.log(|| format!("skewed peer mode={:?} extras={:?} bytes={:?}", mode, g.extras_placed, show(&bytes)));
        // members drawn under a map key that a later duplicate key replaced never reach the wire
        let on_wire = |n: &str| bytes.windows(n.len()).any(|w| w == n.as_bytes());
        // (the Leaf's middle member is spelled with characters JSON has to escape)
        let has_extras = ["xa_first", "xm_middle", "xz_last", "xm\\\"mid\\\\dle\\n", "xm\"mid\\dle\n"].iter().any(|n| on_wire(n));
        if has_extras {
            ctx.count("fault.version_skew_fired");
            ctx.count_n("probe.unknown_members_injected", g.extras_placed.len() as u64);
            ctx.mark_nontrivial();
        }
        if ctx.chance(1, 3) {
            // history on this thread: the newer peer's own types (same names, more members) were
            // deserialized here first, as in a process that serves both schema versions
            let server = ctx.chance(1, 2);
            let _ = guarded(|| de::<N>(mode, server, Source::Slice, &bytes, ReadPlan::default()));
            ctx.count("probe.c05_newer_schema_read_on_this_thread_first");
            ctx.log(|| format!("earlier on this thread: newer schema read by the {} deserializer", if server { "server" } else { "client" }));
        }
        self.c05_check::<P>(ctx, mode, &bytes, expected, &["xa_first", "xm_middle", "xz_last", "xm\"mid\\dle\n"], has_extras, faults, what);
    }

    #[allow(clippy::too_many_arguments)]
    fn c05_check<T>(&self, ctx: &Ctx, mode: Mode, bytes: &[u8], expected: &T, names: &[&str], has_extras: bool, faults: bool, what: &str)
    where
        T: DeserializeOwned + PartialEq + Debug,
    {
        for server in [false, true] {
            for src in [Source::Str, Source::Slice, Source::MutSlice, Source::Reader] {
                if (mode == Mode::Smile && src == Source::Str) || (mode == Mode::Json && src == Source::MutSlice) {
                    continue;
                }
                let plan = if src == Source::Reader {
                    // segmentation only: a read fault would mask the verdict
                    let mut p = ctx.with_tape(|t| ReadPlan::draw(t, bytes.len(), false));
                    if !faults {
                        p.quanta.retain(|q| *q != 0);
                    }
                    p
                } else {
                    ReadPlan::default()
                };
                let pdesc = plan.describe();
                let role = if server { "server" } else { "client" };
                match guarded(|| de::<T>(mode, server, src, bytes, plan)) {
                    Err(p) => ctx.violation("C05", format!("deserialize_panic:{:?}:{}", mode, role), p),
                    Ok((res, stats)) => {
                        let interrupted = stats.eintr > 0;
                        match (server && has_extras, res) {
                            (true, Ok(v)) => ctx.violation(
                                "C05",
                                format!("server_accepted_unknown_field:{:?}:{:?}", mode, src),
                                format!("{}: reader {}: document {:?} accepted as {:?}", what, pdesc, show(bytes), clip(&format!("{:?}", v))),
                            ),
                            (true, Err(e)) => {
                                if !names.iter().any(|n| e.contains(n)) && !interrupted {
                                    ctx.violation("C05", format!("server_error_does_not_name_field:{:?}", mode), format!("{}: {} :: {:?}", what, e, show(bytes)));
                                } else {
                                    ctx.count("probe.c05_server_rejected_naming_field");
                                }
                            }
                            (false, Ok(v)) => {
                                if v != *expected {
                                    ctx.violation(
                                        "C05",
                                        format!("{}_value_differs:{:?}:{:?}", role, mode, src),
                                        format!("{}: reader {}: got {:?} expected {:?} from {:?}", what, pdesc, clip(&format!("{:?}", v)), clip(&format!("{:?}", expected)), show(bytes)),
                                    );
                                } else if has_extras {
                                    ctx.count("probe.c05_client_ignored_field");
                                }
                            }
                            (false, Err(e)) => {
                                if !interrupted {
                                    ctx.violation(
                                        "C05",
                                        format!("{}_rejected:{:?}:{:?}", role, mode, src),
                                        format!("{}: reader {}: {} :: {:?}", what, pdesc, e, show(bytes)),
                                    );
                                }
                            }
                        }
                    }
                }
            }
        }
    }

    /// C05 on generated Conjure types: the extra members are spliced into the
    /// document tree, guided by the IR (only object nodes are targets).
    fn c05_generated(&self, ctx: &Ctx, faults: bool) {
        macro_rules! go {
            ($name:ident) => {
                self.c05_generated_t::<crate::sim_ir::$name>(ctx, stringify!($name), faults)
            };
        }
        match ctx.draw(7) {
            0 => go!(Node),
            1 => go!(Leaf),
            2 => go!(Keys),
            3 => go!(Choice),
            4 => go!(OptNodeAlias),
            5 => go!(Empty),
            _ => go!(Node),
        }
    }

    fn c05_generated_t<T>(&self, ctx: &Ctx, name: &str, faults: bool)
    where
        T: DeserializeOwned + Serialize + PartialEq + Debug,
    {
        let irx = ir();
        let ty = Ty::Ref(name.to_string());
        let mut k = ctx.with_tape(ir::DocKnobs::draw);
        let doc = ctx.with_tape(|t| irx.gen_doc(&ty, t, &mut k, 0));
        let text = doc.to_string();
        let Ok(expected) = json::client_from_str::<T>(&text) else {
            ctx.violation("C05", "valid_document_refused_by_client_deserializer", format!("{} :: {}", name, clip(&text)));
            return;
        };
        // sometimes a member name JSON must write with escapes (then it cannot be borrowed from the input)
        let field = match ctx.draw(3) {
            0 => format!("zz\"Ex\\tra\n{}", ctx.draw(1000)),
            _ => format!("zzExtra{}", ctx.draw(1000)),
        };
        // sometimes far longer than any buffer an error path might keep for it, and not ASCII
        let pad = match ctx.draw(4) {
            0 => "é".repeat(20 + ctx.draw(80) as usize),
            1 => format!("{}\u{1F600}{}", "k".repeat(40 + ctx.draw(40) as usize), "\u{20AC}".repeat(ctx.draw(30) as usize)),
            _ => String::new(),
        };
        if !pad.is_empty() {
            ctx.count("probe.c05_long_member_name");
        }
        let n_extra = 1 + ctx.draw(3) as usize;
        let mode = if ctx.chance(1, 2) { Mode::Json } else { Mode::Smile };
        ctx.sig(name);
        ctx.sig(if mode == Mode::Json { "json" } else { "smile" });
        let (bytes, placed) = match mode {
            Mode::Json => {
                // canonical bytes of the value, then the splice
                let canon = json::to_vec(&expected).unwrap();
                let mut v: Value = serde_json::from_slice(&canon).unwrap();
                let mut placed = 0;
                for i in 0..n_extra {
                    let raw = if ctx.chance(1, 4) { Some(Value::String(crate::faults::RAW_PLACEHOLDER.into())) } else { None };
                    if ctx.with_tape(|t| crate::faults::splice_unknown_with(t, &ty, &mut v, &format!("{}_{}{}", field, i, pad), raw)) {
                        placed += 1;
                    }
                }
                let (b, label) = ctx.with_tape(|t| crate::faults::raw_values(t, serde_json::to_vec(&v).unwrap()));
                if let Some(l) = label {
                    ctx.count("probe.c05_raw_unknown_value");
                    ctx.log(|| format!("raw unknown value {}", l));
                }
                (b, placed)
            }
            Mode::Smile => {
                let canon = smile::to_vec(&expected).unwrap();
                let mut v: serde_smile::value::Value = match serde_smile::from_slice(&canon) {
                    Ok(v) => v,
                    Err(e) => {
                        ctx.violation("C01", "output_not_standard:Smile", format!("{} :: {}", e, name));
                        return;
                    }
                };
                let mut placed = 0;
                for i in 0..n_extra {
                    if ctx.with_tape(|t| splice_unknown_smile(t, &ty, &mut v, &format!("{}_{}{}", field, i, pad))) {
                        placed += 1;
                    }
                }
                (serde_smile::to_vec(&v).unwrap(), placed)
            }
        };
        ctx.log(|| format!("generated {} mode={:?} spliced={} bytes={:?}", name, mode, placed, show(&bytes)));
        if placed > 0 {
            ctx.count("fault.version_skew_fired");
            ctx.count_n("probe.unknown_members_injected", placed as u64);
            ctx.count(if mode == Mode::Json { "probe.c05_generated_json" } else { "probe.c05_generated_smile" });
            ctx.mark_nontrivial();
        }
        self.c05_check::<T>(ctx, mode, &bytes, &expected, &[field.as_str()], placed > 0, faults, name);
    }
}

/// IR-guided splice over a plain serde_smile value tree.
pub fn splice_unknown_smile(t: &mut Tape, ty: &Ty, doc: &mut serde_smile::value::Value, name: &str) -> bool {
    use crate::faults::PathEl;
    use serde_smile::value::Value as S;
    fn walk(ty: &Ty, v: &S, path: &mut Vec<PathEl>, out: &mut Vec<Vec<PathEl>>) {
        let irx = ir();
        match ty {
            Ty::Prim(_) => {}
            Ty::Opt(i) => {
                if !matches!(v, S::Null) {
                    walk(i, v, path, out)
                }
            }
            Ty::List(i) | Ty::Set(i) => {
                if let S::Array(a) = v {
                    for (idx, x) in a.iter().enumerate() {
                        path.push(PathEl::Idx(idx));
                        walk(i, x, path, out);
                        path.pop();
                    }
                }
            }
            Ty::Map(_, vt) => {
                if let S::Object(m) = v {
                    for (k, x) in m {
                        path.push(PathEl::Key(k.clone()));
                        walk(vt, x, path, out);
                        path.pop();
                    }
                }
            }
            Ty::Ref(n) => match &irx.defs[n] {
                Def::Alias(i, _) => walk(i, v, path, out),
                Def::Enum(_) => {}
                Def::Object(fields) => {
                    if let S::Object(m) = v {
                        out.push(path.clone());
                        for (f, fty) in fields {
                            if let Some(x) = m.get(f) {
                                path.push(PathEl::Key(f.clone()));
                                walk(fty, x, path, out);
                                path.pop();
                            }
                        }
                    }
                }
                Def::Union(fields) => {
                    if let S::Object(m) = v {
                        if let Some(S::String(tag)) = m.get("type") {
                            if let Some((f, fty)) = fields.iter().find(|(f, _)| f == tag) {
                                if let Some(x) = m.get(f) {
                                    path.push(PathEl::Key(f.clone()));
                                    walk(fty, x, path, out);
                                    path.pop();
                                }
                            }
                        }
                    }
                }
            },
        }
    }
    let mut out = Vec::new();
    walk(ty, doc, &mut Vec::new(), &mut out);
    if out.is_empty() {
        return false;
    }
    let path = t.pick(&out).clone();
    let mut cur = doc;
    for el in &path {
        cur = match (el, cur) {
            (PathEl::Idx(i), S::Array(a)) => &mut a[*i],
            (PathEl::Key(k), S::Object(m)) => m.get_mut(k).unwrap(),
            _ => return false,
        };
    }
    // every kind of value Smile has, including the integers wider than 64 bits and the decimals
    // that only Smile writers of other languages produce
    let big = |t: &mut Tape, n: usize| -> serde_smile::value::BigInteger {
        let mut b: Vec<u8> = (0..n).map(|_| t.draw(256) as u8).collect();
        if b[0] == 0 || b[0] == 0xff {
            b[0] = if t.chance(1, 2) { 0x01 } else { 0x80 };
        }
        serde_smile::value::BigInteger::from_be_bytes(b)
    };
    let extra = match t.draw(12) {
        0 => S::Null,
        1 => S::Integer(1),
        2 => S::String("NaN".into()),
        3 => S::Array(vec![S::Integer(1), S::Null]),
        4 => S::Double(1.5),
        5 => S::Binary(vec![1, 2, 3]),
        6 => S::Long(*t.pick(&[i64::MIN, i64::MAX, 1 << 40])),
        7 => {
            // 65..128 bits (9..16 bytes), or wider
            let n = *t.pick(&[9usize, 12, 16, 17, 40]);
            S::BigInteger(big(t, n))
        }
        8 => {
            let n = *t.pick(&[1usize, 8, 9, 16, 17]);
            let scale = *t.pick(&[0i32, 2, -3, 400]);
            S::BigDecimal(serde_smile::value::BigDecimal::new(big(t, n), scale))
        }
        9 => S::Float(*t.pick(&[1.5f32, f32::NAN, f32::INFINITY, -0.0])),
        10 => {
            let n = *t.pick(&[9usize, 16, 17]);
            S::Array(vec![S::Object([("k".to_string(), S::BigInteger(big(t, n)))].into_iter().collect())])
        }
        _ => S::Boolean(true),
    };
    if let S::Object(m) = cur {
        // position among the members: first / middle / last
        let at = match t.draw(3) {
            0 => 0,
            1 => m.len() / 2,
            _ => m.len(),
        };
        m.shift_insert(at.min(m.len()), name.to_string(), extra);
        true
    } else {
        false
    }
}

impl Engine for PipeEngine {
    fn property(&self) -> &'static str {
        match self.profile {
            PipeProfile::C01 => "C01",
            PipeProfile::C05 => "C05",
        }
    }

    fn name(&self) -> &'static str {
        match self.profile {
            PipeProfile::C01 => "pipe-c01",
            PipeProfile::C05 => "pipe-c05",
        }
    }

    fn variants(&self) -> u64 {
        3
    }

    fn run(&self, ctx: &Ctx, variant: u64) {
        // variant 0: fault-free readers and writers
        let faults = variant != 0;
        match self.profile {
            PipeProfile::C01 => {
                if ctx.chance(1, 5) {
                    self.c01_generated(ctx, faults)
                } else {
                    self.c01_model(ctx, faults)
                }
            }
            PipeProfile::C05 => {
                if ctx.chance(1, 2) {
                    self.c05_model(ctx, faults)
                } else {
                    self.c05_generated(ctx, faults)
                }
            }
        }
    }

    fn components(&self) -> Value {
        json!({
            "real": [
                "conjure_serde::json::{to_vec,to_string,to_writer,Serializer::pretty}, {client,server}_from_{str,slice,reader}",
                "conjure_serde::smile::{to_vec,to_writer}, {client,server}_from_{slice,mut_slice,reader}",
                "conjure-object key/value types (SafeLong, DoubleKey, Uuid, ResourceIdentifier, BearerToken, DateTime)",
                "generated Conjure types of ir/sim-ir.json (C05, and as C01 values)"
            ],
            "stub": [
                "SimWriter (io::Write: short writes, EINTR, hard error at byte k)",
                "SimReader (io::Read + BufRead: 1..n byte reads / fill_buf windows, EINTR, hard error at k, EOF at k)",
                "newer-schema peer: the same recursive model family with undeclared optional members on every struct, serialized by the real serializers; IR-guided splice for generated types",
                "independent judges: plain serde_json::Value / serde_smile::value::Value parsing, the harness's spec encoder, Base64 codec"
            ]
        })
    }

    fn rule(&self) -> String {
        "one run = a drawn value (recursive serde-derived model family covering struct, option, newtype, tuple, tuple struct, unit/newtype/tuple/struct variants, seq, set, maps keyed by string/i32/safelong/double/bool/uuid/rid/token/datetime/binary/enum; or a generated Conjure type), a format (JSON compact / pretty / Smile), a writer schedule, and per (role, source) a reader schedule with faults; signature = hash(format, value-size class, fault kinds fired, extras placed); non-trivial = a segmentation or fault actually fired or an unknown member was injected".into()
    }

    fn assumptions(&self) -> Vec<String> {
        vec![
            "values of <= 400 nodes and nesting depth <= 30 (serde_json and serde-smile refuse depth > 128 as a stack guard: resource bound, not probed)".into(),
            "f32 is not in the Conjure data model and is left out of the model family".into(),
            "doubles are compared with the types' own equality (NaN equals NaN, -0 equals +0)".into(),
            "str / slice / mut_slice sources are pure: they serve as reference of the differential oracle, the schedule dimension is the reader and the writer".into(),
            "plain serde_json / serde_smile value parsers are trusted as judges of well-formedness".into(),
        ]
    }

    fn required_probes(&self) -> Vec<&'static str> {
        match self.profile {
            PipeProfile::C01 => vec!["fault.short_read_fired", "fault.short_write_fired"],
            PipeProfile::C05 => vec!["probe.c05_server_rejected_naming_field", "probe.c05_client_ignored_field"],
        }
    }
}

impl PipeEngine {
    /// C01 on generated Conjure types: round trip and differential only (their
    /// wire form is C02's business).
    fn c01_generated(&self, ctx: &Ctx, faults: bool) {
        macro_rules! go {
            ($name:ident) => {{
                let irx = ir();
                let ty = Ty::Ref(stringify!($name).to_string());
                let mut k = ctx.with_tape(ir::DocKnobs::draw);
                let doc = ctx.with_tape(|t| irx.gen_doc(&ty, t, &mut k, 0));
                match json::client_from_str::<crate::sim_ir::$name>(&doc.to_string()) {
                    Ok(v) => self.c01_value(ctx, &NoSpec(v), faults, stringify!($name)),
                    Err(e) => ctx.violation("C01", "valid_document_refused_by_client_deserializer", format!("{} :: {}", e, doc)),
                }
            }};
        }
        match ctx.draw(4) {
            0 => go!(Node),
            1 => go!(Keys),
            2 => go!(Choice),
            _ => go!(Leaf),
        }
    }
}

/// Wrapper for values whose wire form is not specified here: the spec is
/// whatever the independent parser reads (only round trip is checked).
#[derive(Debug, PartialEq)]
pub struct NoSpec<T>(pub T);

impl<T: Serialize> Serialize for NoSpec<T> {
    fn serialize<S: serde::Serializer>(&self, s: S) -> Result<S::Ok, S::Error> {
        self.0.serialize(s)
    }
}
impl<'de, T: Deserialize<'de>> Deserialize<'de> for NoSpec<T> {
    fn deserialize<D: serde::Deserializer<'de>>(d: D) -> Result<Self, D::Error> {
        T::deserialize(d).map(NoSpec)
    }
}
thread_local! {
    static LAST_DOC: std::cell::RefCell<Option<Doc>> = const { std::cell::RefCell::new(None) };
}
impl<T: Serialize> Spec for NoSpec<T> {
    fn spec(&self, m: Mode) -> Doc {
        // re-read the real output with the independent parser: well-formedness only
        match m {
            Mode::Json => json::to_vec(&self.0)
                .ok()
                .and_then(|b| serde_json::from_slice::<Value>(&b).ok())
                .map(|j| from_json(&j))
                .unwrap_or(Doc::Null),
            Mode::Smile => smile::to_vec(&self.0)
                .ok()
                .and_then(|b| serde_smile::from_slice::<serde_smile::value::Value>(&b).ok())
                .map(|s| from_smile(&s))
                .unwrap_or(Doc::Null),
        }
    }
}
