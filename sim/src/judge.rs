//! Independent judges: decisions the oracles need that must not come from the
//! code under test.  Plain serde_json / serde_smile for "is this exactly one
//! well-formed document"; the harness's own small codecs for spellings.


/// Exactly one well-formed JSON text (RFC 8259 grammar, UTF-8) and nothing but whitespace after
/// it. Grammar only: a number beyond f64, nesting beyond any recursion limit and an escaped lone
/// surrogate are well-formed, whatever a typed decoder later makes of them.
pub fn json_one_doc(bytes: &[u8]) -> Option<()> {
    std::str::from_utf8(bytes).ok()?;
    serde_json::from_slice::<serde::de::IgnoredAny>(bytes).ok().map(|_| ())
}

pub fn smile_one_doc(bytes: &[u8]) -> bool {
    serde_smile::from_slice::<serde_smile::value::Value>(bytes).is_ok()
}

#[derive(Clone, Copy, Debug, PartialEq, Eq)]
pub enum Enc {
    Json,
    Smile,
}

/// Content-Type → registered encoding by type/subtype, parameters ignored
/// (RFC 9110 media-type grammar, case-insensitive), written independently
/// of the `mediatype` crate the code under test uses.
pub fn encoding_of(content_type: Option<&[u8]>) -> Result<Enc, &'static str> {
    let Some(ct) = content_type else {
        return Err("missing");
    };
    let Ok(ct) = std::str::from_utf8(ct) else {
        return Err("not text");
    };
    if !ct.bytes().all(|b| (0x20..0x7f).contains(&b) || b == b'\t') {
        return Err("not text");
    }
    let essence = ct.split(';').next().unwrap_or("").trim();
    let Some((ty, sub)) = essence.split_once('/') else {
        return Err("no slash");
    };
    let token = |s: &str| !s.is_empty() && s.bytes().all(|b| b.is_ascii_alphanumeric() || b"!#$%&'*+-.^_`|~".contains(&b));
    if !token(ty) || !token(sub) {
        return Err("bad token");
    }
    // parameters, if any, must at least look like name=value
    for p in ct.split(';').skip(1) {
        let p = p.trim();
        if p.is_empty() {
            // RFC 9110: parameters = *( OWS ";" OWS [ parameter ] )
            continue;
        }
        match p.split_once('=') {
            Some((n, v)) if token(n) && !v.is_empty() => {}
            _ => return Err("bad parameter"),
        }
    }
    let e = essence.to_ascii_lowercase();
    if e == "application/json" {
        Ok(Enc::Json)
    } else if e == "application/x-jackson-smile" {
        Ok(Enc::Smile)
    } else {
        Err("unregistered")
    }
}

pub fn is_bearer_token(s: &str) -> bool {
    let body = s.trim_end_matches('=');
    !body.is_empty() && body.bytes().all(|b| b.is_ascii_alphanumeric() || b"-._~+/".contains(&b))
}

/// Strict percent-decoder; `None` when an escape is malformed or the result
/// is not UTF-8.
pub fn pct_decode(s: &str) -> Option<String> {
    let b = s.as_bytes();
    let mut out = Vec::with_capacity(b.len());
    let mut i = 0;
    while i < b.len() {
        if b[i] == b'%' {
            let h = hex(*b.get(i + 1)?)?;
            let l = hex(*b.get(i + 2)?)?;
            out.push(h << 4 | l);
            i += 3;
        } else {
            out.push(b[i]);
            i += 1;
        }
    }
    String::from_utf8(out).ok()
}

fn hex(b: u8) -> Option<u8> {
    match b {
        b'0'..=b'9' => Some(b - b'0'),
        b'a'..=b'f' => Some(b - b'a' + 10),
        b'A'..=b'F' => Some(b - b'A' + 10),
        _ => None,
    }
}

/// RFC 3986 characters that may appear literally in a path segment or in a
/// query key/value without changing the URI's structure.
pub fn structural_safe_path_byte(b: u8) -> bool {
    b.is_ascii_alphanumeric() || b"-._~!$&'()*+,;=:@%".contains(&b)
}
