//! wire-sim: real generated client ⇄ simulated transport/router/bodies/executor
//! ⇄ real generated server endpoints, with every monitor (C04, C06, C07, C09,
//! C18, C19) evaluated on every run.

use crate::body::ChunkKnobs;
use crate::ctx::Ctx;
use crate::exec::{run_tasks, task, ExecKnobs};
use crate::faults::{CallPlan, Expect, Fired, Forced, FK};
use crate::glue::{ArgVal, BinVal, DynVal, GenKnobs, Handler};
use crate::glue_gen;
use crate::ir::{ir, Auth, EpMeta, PKind, RetKind, Seg, Ty};
use crate::judge::{self, Enc};
use crate::runner::{guarded, Engine};
use crate::transport::{CatchPanic, ErrSnap, Exchange, ServerOut, Shared, SimTransport};
use conjure_http::server::{ConjureRuntime, EndpointMetadata, JsonEncoding, SmileEncoding};
use serde_json::{json, Value};
use std::sync::{Arc, Mutex};

#[derive(Clone, Copy, Debug, PartialEq, Eq)]
pub enum Profile {
    C04,
    /// unknown object members at the HTTP surface: request bodies (servers refuse) and responses
    /// (clients ignore) - what C05 says about the deserializers, seen through the endpoints
    C05,
    C06,
    C07,
    C09,
    C18,
    C19,
}

pub struct WireEngine {
    pub profile: Profile,
    /// fault enumeration (C06 / C18) instead of seeded faults
    pub enumerate: bool,
}

pub enum CallResult {
    Ok(Box<dyn DynVal>),
    Err(ErrSnap),
    Panic(String),
    Cancelled,
    NotRun,
}

pub struct CallRec {
    pub client_kind: crate::mirror::ClientKind,
    pub ep: usize,
    pub args: Vec<ArgVal>,
    pub ret: Box<dyn DynVal>,
    pub result: CallResult,
    pub token_debug: Option<(String, String)>,
}

const REQ_TRANSPARENT: &[FK] = &[FK::Pretty, FK::SmileReencode, FK::CtParams, FK::TrailingWs, FK::LeadingWs, FK::UnionReorder, FK::QuerySpelling];
const REQ_BODY_DAMAGE: &[FK] = &[
    FK::StreamError,
    FK::Truncate,
    FK::TrailingGarbage,
    FK::TrailingSecondDoc,
    FK::CtDrop,
    FK::CtUnregistered,
    FK::CtLabelSwap,
    FK::Oversize,
    FK::UnknownField,
    FK::TypeConfusion,
    FK::WrongDocument,
    FK::UnionMismatch,
    FK::NumberOutOfRange,
    FK::MissingField,
    FK::LeafCorrupt,
    FK::ByteFlip,
];
const PARAM_FAULTS: &[FK] = &[
    FK::ParamDrop,
    FK::ParamDup,
    FK::ParamCorrupt,
    FK::ParamOpaque,
    FK::AuthDrop,
    FK::AuthCorrupt,
];
const RESP_DAMAGE: &[FK] = &[
    FK::StreamError,
    FK::Truncate,
    FK::TrailingGarbage,
    FK::TrailingSecondDoc,
    FK::CtDrop,
    FK::CtUnregistered,
    FK::CtParams,
    FK::StatusFlip,
    FK::UnknownField,
    FK::TypeConfusion,
    FK::WrongDocument,
    FK::UnionMismatch,
    FK::UnionReorder,
    FK::NumberOutOfRange,
    FK::MissingField,
    FK::LeafCorrupt,
    FK::ByteFlip,
    FK::Pretty,
    FK::TrailingWs,
    FK::LeadingWs,
];

fn swarm(ctx: &Ctx, pool: &[FK]) -> Vec<FK> {
    // a random subset of the pool is enabled in this run
    let mut v: Vec<FK> = pool.iter().copied().filter(|_| ctx.chance(1, 2)).collect();
    if v.is_empty() {
        v.push(pool[ctx.draw(pool.len() as u64) as usize]);
    }
    v
}

fn pick_ep(ctx: &Ctx, profile: Profile) -> usize {
    let irx = ir();
    let cands: Vec<usize> = irx
        .eps
        .iter()
        .filter(|e| match profile {
            Profile::C04 | Profile::C18 => true,
            Profile::C05 => e.body_arg().is_some() || e.returns.is_some(),
            Profile::C06 => e.body_arg().is_some(),
            Profile::C07 => e.args.iter().any(|a| matches!(a.kind, PKind::Path | PKind::Query)),
            Profile::C09 => !e.args.is_empty() || !matches!(e.auth, Auth::None),
            Profile::C19 => {
                e.args.iter().any(|a| a.kind != PKind::Body) || !matches!(e.auth, Auth::None)
            }
        })
        .map(|e| e.idx)
        .collect();
    // weight the safety service up for C09
    if profile == Profile::C09 && ctx.chance(1, 2) {
        let s: Vec<usize> = cands
            .iter()
            .copied()
            .filter(|i| irx.eps[*i].service == "SafetyService")
            .collect();
        return s[ctx.draw(s.len() as u64) as usize];
    }
    cands[ctx.draw(cands.len() as u64) as usize]
}

pub struct RunSetup {
    pub sh: Arc<Shared>,
    pub knobs: GenKnobs,
    pub is_async: bool,
}

pub fn setup(ctx: &Ctx, is_async: bool, knobs: GenKnobs) -> RunSetup {
    setup_with(ctx, is_async, knobs, false, false)
}

/// `macro_server`: the hand-written `#[conjure_endpoints]` mirror traits take
/// precedence over the generated endpoints for the endpoints they cover.
/// `single_encoding`: the runtime may also be built with one encoding only (then requests in the
/// other one have to be refused; only the C06 oracle knows how to judge that).
pub fn setup_with(ctx: &Ctx, is_async: bool, knobs: GenKnobs, macro_server: bool, single_encoding: bool) -> RunSetup {
    let handler = Handler::new(ctx);
    // knob: the registered encodings and their order
    let mut registered = (true, true);
    let rt = match ctx.draw(if single_encoding { 6 } else { 4 }) {
        0 | 1 => ConjureRuntime::new(),
        2 => ConjureRuntime::builder().encoding(JsonEncoding).encoding(SmileEncoding).build(),
        3 => ConjureRuntime::builder().encoding(SmileEncoding).encoding(JsonEncoding).build(),
        4 => {
            registered = (true, false);
            ctx.count("probe.runtime_json_only");
            ConjureRuntime::builder().encoding(JsonEncoding).build()
        }
        _ => {
            registered = (false, true);
            ctx.count("probe.runtime_smile_only");
            ConjureRuntime::builder().encoding(SmileEncoding).build()
        }
    };
    let rt = Arc::new(rt);
    let (sync_eps, async_eps) = if is_async {
        let mut v = if macro_server { crate::mirror::endpoints_async(&handler, &rt) } else { Vec::new() };
        v.extend(glue_gen::endpoints_async(&handler, &rt));
        v.extend(crate::mirror::macro_only_endpoints_async(&handler, &rt));
        (Vec::new(), v)
    } else {
        let mut v = if macro_server { crate::mirror::endpoints_blocking(&handler, &rt) } else { Vec::new() };
        v.extend(glue_gen::endpoints_blocking(&handler, &rt));
        v.extend(crate::mirror::macro_only_endpoints_blocking(&handler, &rt));
        (v, Vec::new())
    };
    // server list position -> IR endpoint index, verified by name
    let names: Vec<(String, String)> = if is_async {
        async_eps
            .iter()
            .map(|e| (e.service_name().to_string(), e.name().to_string()))
            .collect()
    } else {
        sync_eps
            .iter()
            .map(|e| (e.service_name().to_string(), e.name().to_string()))
            .collect()
    };
    let ep_of = names
        .iter()
        .map(|(s, n)| ir().ep(s, n).idx)
        .collect();
    RunSetup {
        sh: Arc::new(Shared {
            ctx: ctx.clone(),
            sync_eps,
            async_eps,
            ep_of,
            handler,
            exchanges: Mutex::new(Vec::new()),
            next_body_id: Mutex::new(0),
            registered,
        }),
        knobs,
        is_async,
    }
}

pub fn base_plan(ctx: &Ctx, knobs: &GenKnobs) -> CallPlan {
    CallPlan {
        enabled: Vec::new(),
        rate16: 0,
        max_faults: 0,
        alpha: knobs.alpha.clone(),
        digits: knobs.digits,
        writer_pend_every: ctx.draw(3) as u8,
        ..CallPlan::default()
    }
}

impl WireEngine {
    fn plan_for(&self, ctx: &Ctx, knobs: &GenKnobs, faults_on: bool, run_enabled: &[FK]) -> CallPlan {
        let mut p = base_plan(ctx, knobs);
        if !faults_on {
            return p;
        }
        // schedule faults are transparent for every property
        if ctx.chance(3, 4) {
            p.chunk_req = Some(ctx.with_tape(ChunkKnobs::draw));
        }
        if ctx.chance(3, 4) {
            p.chunk_resp = Some(ctx.with_tape(ChunkKnobs::draw));
        }
        p.write_faults = ctx.chance(1, 2);
        p.retry = ctx.chance(1, 6);
        if self.profile == Profile::C18 {
            p.enabled_resp = run_enabled.to_vec();
        } else if self.profile == Profile::C05 {
            p.enabled = run_enabled.to_vec();
            p.enabled_resp = run_enabled.to_vec();
        } else {
            p.enabled = run_enabled.to_vec();
        }
        match self.profile {
            Profile::C04 | Profile::C07 => {
                p.rate16 = 4;
                p.max_faults = 8; // transparent kinds do not count
            }
            _ => {
                // most calls carry zero or one damaging fault
                p.rate16 = 2;
                p.max_faults = if ctx.chance(1, 5) { 2 } else { 1 };
            }
        }
        p
    }
}

pub fn result_of(r: Result<Result<Box<dyn DynVal>, conjure_error::Error>, String>) -> CallResult {
    match r {
        Ok(Ok(v)) => CallResult::Ok(v),
        Ok(Err(e)) => CallResult::Err(crate::transport::snap_error(&e)),
        Err(msg) => CallResult::Panic(msg),
    }
}

impl Engine for WireEngine {
    fn property(&self) -> &'static str {
        match self.profile {
            Profile::C04 => "C04",
            Profile::C05 => "C05",
            Profile::C06 => "C06",
            Profile::C07 => "C07",
            Profile::C09 => "C09",
            Profile::C18 => "C18",
            Profile::C19 => "C19",
        }
    }

    fn name(&self) -> &'static str {
        match (self.profile, self.enumerate) {
            (Profile::C04, _) => "wire-c04",
            (Profile::C05, _) => "wire-c05",
            (Profile::C06, false) => "wire-c06",
            (Profile::C06, true) => "wire-c06-enum",
            (Profile::C07, _) => "wire-c07",
            (Profile::C09, _) => "wire-c09",
            (Profile::C18, false) => "wire-c18",
            (Profile::C18, true) => "wire-c18-enum",
            (Profile::C19, _) => "wire-c19",
        }
    }

    fn variants(&self) -> u64 {
        4
    }

    fn run(&self, ctx: &Ctx, variant: u64) {
        if self.enumerate {
            return crate::wire_enum::run_enum(self, ctx);
        }
        let channels = self.run_inner(ctx, variant, false);
        if self.profile == Profile::C09 {
            // non-interference: replay the very same decisions with every canary (all data of
            // non-safe arguments, tokens and injected garbage) replaced by another one of the same
            // shape; whatever is safe to log must come out identical
            let tape = ctx.lock().tape.rec.clone();
            let log_on = ctx.lock().log_enabled;
            let twin = Ctx::new(crate::tape::Tape::replay(tape), log_on);
            let other = crate::runner::on_fresh_thread(|| self.run_inner(&twin, variant, true));
            if log_on && channels != other {
                // the twin's history, for whoever reads the replay
                let lines = std::mem::take(&mut twin.lock().log);
                for l in lines {
                    ctx.log(|| format!("twin| {}", l));
                }
            }
            ctx.count("probe.c09_twin_runs");
            let same_questions = {
                let (a, b) = (ctx.lock(), twin.lock());
                a.tape.shape == b.tape.shape && a.tape.consumed() >= b.tape.consumed()
            };
            if !same_questions {
                // a decision of the simulation itself depended on the data (a body whose map keys
                // sort differently is re-spelled in one run only): the runs are not twins
                ctx.count("probe.c09_twin_diverged");
            } else if channels.first().map(|c| c.0.as_str()) == Some("not_comparable") || other.first().map(|c| c.0.as_str()) == Some("not_comparable") {
                ctx.count("probe.c09_twin_not_comparable");
            } else if channels.len() != other.len() {
                ctx.violation("C09", "safe_channels_depend_on_non_safe_data:shape", format!("{} safe channels vs {} when only non-safe data changed: {:?} vs {:?}", channels.len(), other.len(), channels, other));
            } else {
                for ((name, a), (_, b)) in channels.iter().zip(&other) {
                    if a != b {
                        let class = name.split(':').next().unwrap_or("").to_string();
                        ctx.violation(
                            "C09",
                            format!("safe_channel_depends_on_non_safe_data:{}", class),
                            format!("{} changed from {:?} to {:?} when only data of non-safe arguments changed", name, a, b),
                        );
                        break;
                    }
                }
            }
        }
    }


    fn components(&self) -> Value {
        json!({
            "real": [
                "conjure-codegen output for ir/sim-ir.json (blocking and async clients, server traits), regenerated from /repo on every build",
                "#[conjure_endpoints] expansions (conjure-macros)",
                "conjure_http::private::{client,server}::*, UriBuilder, read_body/async_read_body",
                "conjure_http::server::{StdRequestDeserializer, Optional/BinaryRequestDeserializer, *ResponseSerializer, FromPlain*Decoder, ConjureRuntime negotiation, encodings}",
                "conjure-serde JSON and Smile, conjure-object PLAIN/types, conjure-error"
            ],
            "stub": [
                "SimTransport (Client + AsyncClient): textual wire, fault injection",
                "router: template matcher filling PathParams (stands in for conjure-runtime / witchcraft-server)",
                "SimBody (Iterator + Stream), SimWriter, SimAsyncWriter, discrete-event clock, single-threaded executor",
                "recording handler behind the generated service traits",
                "request/response streaming body implementations (user-side WriteBody / AsyncWriteBody)"
            ]
        })
    }

    fn rule(&self) -> String {
        "one run = drawn flavour (blocking/async), runtime encoding order, 1-4 calls on drawn endpoints of ir/sim-ir.json with drawn arguments and scripted return, a swarm-drawn subset of fault kinds, chunk/timing/write schedules; a run's signature = hash(flavour, endpoints, ordered fault kinds that fired, chunk-count class per body, outcome class); distinct_nontrivial counts distinct signatures of runs in which at least one fault fired or a body was delivered in >= 2 chunks".into()
    }

    fn assumptions(&self) -> Vec<String> {
        vec![
            "the router stub matches what conjure-runtime / witchcraft-server do: split the raw path on '/', hand raw (still percent-encoded) segments to the endpoint via PathParams".into(),
            "the transport copies header bytes verbatim (no whitespace trimming, no line folding) and never delivers a request twice".into(),
            "HTTP status >= 300 is the embedding client's business (Client contract) and is not simulated; server errors are handed to the client as errors".into(),
            "generated types are constructed through conjure_serde::json::client_from_str from IR-driven documents".into(),
            "nesting depth <= 6 and documents of <= ~150 nodes per value".into(),
            "C09 on failure: endpoint arguments are decoded in declaration order (the macro expansion emits them in that order), so declared-safe arguments declared before the argument an error names must already be recorded".into(),
            "macro-derived mirrors cover 11 client and 9 server endpoints; MacroOnly.segments exists only as macro traits (multi-segment path parameters cannot be declared in a Conjure IR)".into(),
        ]
    }

    fn required_probes(&self) -> Vec<&'static str> {
        let mut v = vec!["probe.handler_invoked"];
        match (self.profile, self.enumerate) {
            (Profile::C04, _) => v.extend(["probe.c04_evaluated", "sched.blocking_threaded_runs", "sched.choice_among_runnable", "body.request_reset"]),
            (Profile::C06, false) => v.extend(["probe.c06_evaluated", "fault.union_mismatch_fired", "fault.wrong_document_fired", "fault.stream_error_fired"]),
            (Profile::C06, true) => v.extend(["probe.c06_evaluated"]),
            (Profile::C07, _) => v.extend(["probe.c07_uri_checked", "probe.call_refused_by_client_encoder"]),
            (Profile::C09, _) => v.extend(["probe.c09_twin_runs", "probe.c09_safe_arg_expected", "sched.blocking_threaded_runs"]),
            (Profile::C18, false) => v.extend(["probe.c18_evaluated", "fault.union_mismatch_fired", "fault.wrong_document_fired"]),
            (Profile::C18, true) => v.extend(["probe.c18_evaluated"]),
            (Profile::C19, _) => {}
            (Profile::C05, _) => v.extend(["fault.unknown_field_fired", "probe.unknown_field_spliced", "probe.c05_http_unknown_member_runs"]),
        }
        v
    }
}

pub fn _unused(_: &EpMeta, _: &Seg, _: &Ty, _: RetKind, _: &Fired, _: &Expect, _: &Forced, _: &BinVal, _: Enc, _: &Exchange, _: &ServerOut) {
    let _ = judge::is_bearer_token;
}

impl WireEngine {
    /// One simulated run; returns the safe-to-log channels observed, in order.
    fn run_inner(&self, ctx: &Ctx, variant: u64, twin: bool) -> Vec<(String, String)> {
        // variant 0: fault-free configuration (no relaxation can hide an ordinary bug)
        let faults_on = variant != 0;
        let knobs = {
            let mut k = ctx.with_tape(GenKnobs::draw);
            if twin {
                k = k.twinned();
            }
            if matches!(self.profile, Profile::C04 | Profile::C06) && ctx.chance(1, 40) {
                k.big_body = true;
            }
            if self.profile == Profile::C07 {
                // heavy-tailed lengths, up to ~100 kB
                k.max_str = ctx.with_tape(|t| *t.pick(&[8u64, 64, 300, 300, 3000, 30000, 100_000]));
                k.wild_strings = true;
            }
            k
        };
        let is_async = ctx.chance(1, 2);
        let macro_server = ctx.chance(1, 3);
        if macro_server {
            ctx.sig("macro-server");
            ctx.count("probe.macro_server_run");
        }
        let st = setup_with(ctx, is_async, knobs, macro_server, faults_on && self.profile == Profile::C06);
        let run_enabled: Vec<FK> = match self.profile {
            Profile::C04 | Profile::C07 => REQ_TRANSPARENT.to_vec(),
            Profile::C06 => {
                let mut v = swarm(ctx, REQ_BODY_DAMAGE);
                v.extend(swarm(ctx, REQ_TRANSPARENT));
                v
            }
            Profile::C09 => {
                let mut v = swarm(ctx, PARAM_FAULTS);
                v.extend(swarm(ctx, REQ_BODY_DAMAGE));
                // Smile bodies and the other value-preserving spellings reach other error sites
                v.extend(swarm(ctx, REQ_TRANSPARENT));
                v
            }
            Profile::C19 => swarm(ctx, PARAM_FAULTS),
            Profile::C18 => swarm(ctx, RESP_DAMAGE),
            Profile::C05 => {
                let mut v = vec![FK::UnknownField];
                v.extend(swarm(ctx, &[FK::Pretty, FK::SmileReencode, FK::TrailingWs, FK::LeadingWs, FK::UnionReorder]));
                v
            }
        };
        // several calls on one service instance: interleaved by the scheduler (async) or one
        // after the other (blocking) — state must not carry over between calls
        let ncalls = if faults_on && matches!(self.profile, Profile::C04 | Profile::C09 | Profile::C07 | Profile::C19) && ctx.chance(1, 3) {
            2 + ctx.draw(3) as usize
        } else {
            1
        };
        // C06 / C18: sometimes the damaged exchange is followed by an undamaged one on the same
        // thread and service instance (blocking flavour: strictly one after the other)
        let clean_follow_up = faults_on && matches!(self.profile, Profile::C06 | Profile::C18) && !is_async && ctx.chance(1, 3);
        let ncalls = if clean_follow_up { 2 } else { ncalls };
        // several blocking calls: one after the other on this thread, or each on its own thread
        let threaded = !is_async && !clean_follow_up && ncalls > 1 && ctx.chance(1, 2);
        ctx.sig(if is_async { "async" } else if threaded { "blocking-threads" } else { "blocking" });
        let mut calls: Vec<CallRec> = Vec::new();
        let mut transports: Vec<SimTransport> = Vec::new();
        for c in 0..ncalls {
            let mut ep = pick_ep(ctx, self.profile);
            // client kind: generated, macro-derived, or the foreign Smile peer
            let mut client_kind = crate::mirror::ClientKind::Generated;
            if matches!(self.profile, Profile::C04 | Profile::C05 | Profile::C07 | Profile::C18 | Profile::C19 | Profile::C09) && ctx.chance(1, 4) {
                // steer towards the mirrored endpoints
                let covered: Vec<usize> = ir().eps.iter().map(|e| e.idx).filter(|i| crate::mirror::macro_client_covers(*i) || crate::mirror::smile_client_covers(*i)).collect();
                let applicable: Vec<usize> = covered
                    .into_iter()
                    .filter(|i| match self.profile {
                        Profile::C07 => ir().eps[*i].args.iter().any(|a| matches!(a.kind, PKind::Path | PKind::Query)),
                        Profile::C19 | Profile::C09 => ir().eps[*i].args.iter().any(|a| a.kind != PKind::Body) || !matches!(ir().eps[*i].auth, Auth::None),
                        _ => true,
                    })
                    .collect();
                if !applicable.is_empty() {
                    ep = applicable[ctx.draw(applicable.len() as u64) as usize];
                    let m = crate::mirror::macro_client_covers(ep);
                    let sm = crate::mirror::smile_client_covers(ep) && matches!(self.profile, Profile::C04);
                    client_kind = match (m, sm) {
                        (true, true) => {
                            if ctx.chance(1, 2) {
                                crate::mirror::ClientKind::Macro
                            } else {
                                crate::mirror::ClientKind::Smile
                            }
                        }
                        (true, false) => crate::mirror::ClientKind::Macro,
                        (false, true) => crate::mirror::ClientKind::Smile,
                        _ => crate::mirror::ClientKind::Generated,
                    };
                }
            }
            match client_kind {
                crate::mirror::ClientKind::Macro => {
                    ctx.sig("macro-client");
                    ctx.count("probe.macro_client_call");
                }
                crate::mirror::ClientKind::Smile => {
                    ctx.sig("smile-client");
                    ctx.count("probe.smile_client_call");
                }
                _ => {}
            }
            if crate::mirror::macro_only(ep) {
                client_kind = crate::mirror::ClientKind::Macro;
                ctx.count("probe.macro_only_endpoint_call");
            }
            let mut args = ctx.with_tape(|t| crate::mirror::gen_args(ep, t, &st.knobs));
            if self.profile == Profile::C07 && ctx.chance(1, 10) {
                // aim the encoded URI at the longest length `http::Uri` can hold (65534 bytes), give
                // or take a byte: measure the URI with one plain-string argument emptied, then fill
                // that argument with as many unreserved characters as are missing
                let meta = &ir().eps[ep];
                let off = if matches!(meta.auth, Auth::None) { 0 } else { 1 };
                let cands: Vec<usize> = meta
                    .args
                    .iter()
                    .enumerate()
                    .filter(|(_, a)| matches!(a.kind, PKind::Path | PKind::Query) && a.ty == Ty::Prim(crate::ir::Prim::String))
                    .map(|(i, _)| i + off)
                    .collect();
                if !cands.is_empty() {
                    let i = cands[ctx.draw(cands.len() as u64) as usize];
                    let name = args[i].name;
                    args[i] = ArgVal::new(name, Box::new(String::new()));
                    let seen = Arc::new(Mutex::new(None));
                    let probe = SimTransport {
                        sh: st.sh.clone(),
                        call: c as u32,
                        plan: Arc::new(Mutex::new(base_plan(ctx, &st.knobs))),
                        measure: Some(seen.clone()),
                    };
                    let _ = guarded(|| crate::mirror::call_blocking(&probe, client_kind, ep, &args));
                    let measured: Option<usize> = *seen.lock().unwrap();
                    if let Some(l0) = measured {
                        let target = 65534 + *ctx.with_tape(|t| t.pick(&[-2i64, -1, 0, 0, 1, 1, 2, 3])) as i64;
                        let fill = target - l0 as i64;
                        if fill >= 0 {
                            args[i] = ArgVal::new(name, Box::new("a".repeat(fill as usize)));
                            ctx.count("probe.c07_uri_aimed_at_length_limit");
                        }
                    }
                }
            }
            if ctx.chance(1, 12) {
                // a value that looks like more of the query: "...;otherParam=..." - it is one value
                let meta = &ir().eps[ep];
                let off = if matches!(meta.auth, Auth::None) { 0 } else { 1 };
                let strs: Vec<usize> = meta
                    .args
                    .iter()
                    .enumerate()
                    .filter(|(_, a)| a.kind == PKind::Query && a.ty == Ty::Prim(crate::ir::Prim::String))
                    .map(|(i, _)| i)
                    .collect();
                let ids: Vec<&str> = meta.args.iter().filter(|a| a.kind == PKind::Query).map(|a| a.param_id.as_str()).collect();
                if !strs.is_empty() {
                    let i = strs[ctx.draw(strs.len() as u64) as usize];
                    let a = &meta.args[i];
                    let mark = if a.declared_safe() { "v".to_string() } else { st.knobs.alpha.clone() };
                    let sep = ctx.with_tape(|t| *t.pick(&[";", ";", "&", "&amp;", "?", "#", ",", "\n", "%26", "%3B"]));
                    let other = ids[ctx.draw(ids.len() as u64) as usize];
                    let name = args[i + off].name;
                    args[i + off] = ArgVal::new(name, Box::new(format!("{}{}{}={}", mark, sep, other, mark)));
                    ctx.count("probe.query_value_that_looks_like_another_pair");
                }
            }
            let ret = ctx.with_tape(|t| crate::mirror::gen_ret(ep, t, &st.knobs));
            let mut plan = self.plan_for(ctx, &st.knobs, faults_on && !(clean_follow_up && c == 1), &run_enabled);
            if clean_follow_up && c == 1 {
                ctx.count("fault.clean_call_after_damaged_call");
            }
            if let Some(b) = ir().eps[ep].body_arg() {
                if !ir().is_binary(&b.ty) {
                    let idx = args.iter().position(|a| a.name == b.name).unwrap();
                    plan.alt_smile_body = glue_gen::val_to_smile((ep, true), &*args[idx].val);
                }
            }
            let meta = &ir().eps[ep];
            ctx.log(|| {
                format!(
                    "invoke call={} {}.{} args=[{}] scripted_return={}",
                    c,
                    meta.service,
                    meta.name,
                    args.iter()
                        .map(|a| format!("{}={}", a.name, a.val.render()))
                        .collect::<Vec<_>>()
                        .join(", "),
                    ret.render()
                )
            });
            ctx.sig(&meta.name);
            st.sh.handler.script(ep, ret.clone_box());
            if self.profile == Profile::C09 && faults_on && ncalls == 1 && ctx.chance(1, 10) {
                // the handler itself refuses and reports a non-safe value back as an unsafe parameter
                st.sh.handler.refuse_next(ep, format!("rejected {}", st.knobs.alpha));
            }
            let token_debug = args.iter().find(|a| a.name == "auth_").map(|a| {
                let t: &conjure_object::BearerToken = a.get();
                (t.as_str().to_string(), format!("{:?}", t))
            });
            calls.push(CallRec {
                client_kind,
                ep,
                args,
                ret,
                result: CallResult::NotRun,
                token_debug,
            });
            transports.push(SimTransport {
                sh: st.sh.clone(),
                call: c as u32,
                plan: Arc::new(Mutex::new(plan)),
                measure: None,
            });
        }
        // ---- execute
        let mut liveness: Option<String> = None;
        if !st.is_async && threaded {
            // blocking calls in flight at once: real threads, released one at a time at the
            // simulation's seams, the tape choosing who continues
            ctx.count("sched.blocking_threaded_runs");
            let baton = crate::ctx::Baton::new(ncalls);
            std::thread::scope(|s| {
                for (c, (call, tr)) in calls.iter_mut().zip(&transports).enumerate() {
                    let baton = baton.clone();
                    let ctx = ctx.clone();
                    s.spawn(move || {
                        baton.enter(c, &ctx);
                        let r = guarded(|| crate::mirror::call_blocking(tr, call.client_kind, call.ep, &call.args));
                        call.result = result_of(r);
                        baton.leave(c, &ctx);
                    });
                }
                baton.start(ctx);
            });
        } else if !st.is_async {
            for (c, call) in calls.iter_mut().enumerate() {
                let tr = &transports[c];
                let r = guarded(|| crate::mirror::call_blocking(tr, call.client_kind, call.ep, &call.args));
                call.result = result_of(r);
            }
        } else {
            let results: Vec<Mutex<Option<CallResult>>> = (0..ncalls).map(|_| Mutex::new(None)).collect();
            let cancel_enabled = faults_on && self.profile == Profile::C04 && ncalls > 1;
            let report = {
                let mut tasks = Vec::new();
                for c in 0..ncalls {
                    let tr = &transports[c];
                    let call = &calls[c];
                    let slot = &results[c];
                    let cancel_after = if cancel_enabled && ctx.chance(1, 5) {
                        Some(ctx.draw(6) as u32)
                    } else {
                        None
                    };
                    tasks.push(task(
                        async move {
                            let r = CatchPanic(Box::pin(crate::mirror::call_async(tr, call.client_kind, call.ep, &call.args))).await;
                            *slot.lock().unwrap() = Some(result_of(r));
                        },
                        cancel_after,
                    ));
                }
                let knobs = ExecKnobs {
                    spurious_polls: faults_on,
                    max_polls: 5_000_000,
                };
                let rep = run_tasks(ctx, &mut tasks, &knobs);
                for (c, t) in tasks.iter().enumerate() {
                    if t.cancelled {
                        *results[c].lock().unwrap() = Some(CallResult::Cancelled);
                    }
                }
                rep
            };
            // bounded liveness: once the last fault has fired every call completes within a
            // number of scheduler steps linear in the deliveries that were scheduled
            let budget: u64 = {
                let exs = st.sh.exchanges.lock().unwrap();
                64 * ncalls as u64
                    + exs
                        .iter()
                        .map(|e| {
                            8 * (e.req_plan.steps.len() as u64 + e.resp_plan.steps.len() as u64 + 4)
                                + 4 * (if e.sent.streaming { e.sent.body.as_ref().map(|b| b.len() as u64).unwrap_or(0) } else { 0 })
                                + 4 * match &e.server {
                                    crate::transport::ServerOut::Ok(w) if w.streaming => w.body.len() as u64,
                                    _ => 0,
                                }
                        })
                        .sum::<u64>()
            };
            if !report.stalled && !report.exceeded && report.polls as u64 > budget {
                liveness = Some(format!("{} scheduler steps for a history that needs at most {}", report.polls, budget));
            }
            if report.stalled {
                liveness = Some(format!("executor stalled after {} polls: a task is Pending with no wake-up and no timer", report.polls));
            } else if report.exceeded {
                liveness = Some(format!("no completion within {} polls", report.polls));
            }
            for (c, call) in calls.iter_mut().enumerate() {
                call.result = results[c].lock().unwrap().take().unwrap_or(CallResult::NotRun);
            }
        }
        for (c, call) in calls.iter().enumerate() {
            ctx.log(|| {
                format!(
                    "return call={} {}",
                    c,
                    match &call.result {
                        CallResult::Ok(v) => format!("Ok({})", v.render()),
                        CallResult::Err(e) => format!("Err(code={} marker={:?} cause={:?})", e.code, e.marker, e.cause),
                        CallResult::Panic(m) => format!("PANIC {}", m),
                        CallResult::Cancelled => "cancelled".into(),
                        CallResult::NotRun => "not-run".into(),
                    }
                )
            });
        }
        if let Some(l) = liveness {
            ctx.violation("C04", "liveness", l);
        }
        let exchanges = std::mem::take(&mut *st.sh.exchanges.lock().unwrap());
        // calls the client's own parameter encoder has to refuse: an error, and nothing sent
        for (c, call) in calls.iter_mut().enumerate() {
            if !crate::mirror::client_refuses(call.ep, &call.args) {
                continue;
            }
            ctx.count("probe.call_refused_by_client_encoder");
            let sent = exchanges.iter().any(|e| e.call as usize == c);
            match &call.result {
                CallResult::Err(_) if !sent => call.result = CallResult::Cancelled,
                CallResult::Cancelled | CallResult::NotRun => {}
                CallResult::Panic(_) => {}
                other => {
                    let what = match other {
                        CallResult::Ok(_) => "returned a value",
                        _ => "failed only after sending a request",
                    };
                    ctx.violation("C04", "encoder_refusal_ignored", format!("MacroOnly.segments: the parameter encoder refused the value but the call {}", what));
                    call.result = CallResult::Cancelled;
                }
            }
        }
        crate::oracles::evaluate(ctx, &st.knobs, &calls, &exchanges, &st.sh.handler, st.is_async || threaded);
        if self.profile == Profile::C05 {
            // the only damage this profile does is an undeclared member: what the request-body,
            // response and exchange oracles find about it is a C05 violation at the HTTP surface
            let spliced = exchanges.iter().any(|e| e.req_fired.iter().chain(&e.resp_fired).any(|f| f.kind == FK::UnknownField));
            if spliced {
                ctx.count("probe.c05_http_unknown_member_runs");
                let mut g = ctx.lock();
                for v in g.violations.iter_mut() {
                    let about_members = ["accepted:unknown_field", "valid_response_rejected", "client_error_after_handler", "client_result_differs", "value_differs", "handler_value_differs"]
                        .iter()
                        .any(|k| v.kind.starts_with(k));
                    if about_members && matches!(v.property, "C04" | "C06" | "C18") {
                        v.kind = format!("http:{}:{}", v.property, v.kind);
                        v.property = "C05";
                    }
                }
            }
        }
        crate::oracles::safe_channels(&exchanges)
    }
}
