//! gen-sim: the real `conjure-rust` CLI and the `conjure_codegen` library
//! entry point run as child processes under an LD_PRELOAD interposer that
//! makes the per-process hash seed and the wall clock functions of the run's
//! tape; cwd, HOME, TMPDIR, environment noise, output path and entry point are
//! drawn too.  Decides C20: all executions of one (IR, configuration) produce
//! byte-identical trees and touch nothing outside the output directory.

use crate::ctx::Ctx;
use crate::runner::Engine;
use crate::tape::Tape;
use serde_json::{json, Value};
use std::collections::BTreeMap;
use std::path::{Path, PathBuf};
use std::process::Command;
use std::sync::atomic::{AtomicU64, Ordering};

pub const SHIM: &str = "/verif/sim/target/interpose.so";
pub const CLI: &str = "/verif/sim/target/repo-cli/release/conjure-rust";
const SCRATCH: &str = "/var/tmp/verif-gen";

pub struct GenEngine {
    pub executions: u64,
}

#[derive(Clone, Debug)]
struct Config {
    exhaustive: Option<bool>,
    serialize_empty: Option<bool>,
    strip_prefix: Option<String>,
    product: Option<(String, String)>,
    crate_version: Option<String>,
}

impl Config {
    /// `spelling`: which of the documented spellings of a boolean flag is used (bare or `=true`).
    fn cli_args(&self, spelling: u64) -> Vec<String> {
        let mut a = vec!["generate".to_string()];
        match self.exhaustive {
            Some(true) => a.push(if spelling & 1 == 0 { "--exhaustive".into() } else { "--exhaustive=true".into() }),
            Some(false) => a.push("--exhaustive=false".into()),
            None => {}
        }
        match self.serialize_empty {
            Some(true) => a.push(if spelling & 2 == 0 { "--serializeEmptyCollections".into() } else { "--serializeEmptyCollections=true".into() }),
            Some(false) => a.push("--serializeEmptyCollections=false".into()),
            None => {}
        }
        if let Some(p) = &self.strip_prefix {
            a.push("--stripPrefix".into());
            a.push(p.clone());
        }
        if let Some((n, v)) = &self.product {
            a.push("--productName".into());
            a.push(n.clone());
            a.push("--productVersion".into());
            a.push(v.clone());
        }
        if let Some(v) = &self.crate_version {
            a.push("--crateVersion".into());
            a.push(v.clone());
        }
        a
    }

    fn describe(&self) -> String {
        format!("{:?}", self)
    }
}

/// The library entry point, driven with the options the README and `--help`
/// document for the equivalent flags (child process: `verif-sim gen-lib ...`).
pub fn gen_lib_main(args: &[String]) -> i32 {
    // a build script may generate several definitions in one process: every group of
    // arguments separated by "--then" is one generation; the last one is the one compared
    let mut rc = 0;
    for group in args.split(|a| a == "--then") {
        rc = gen_lib_once(group);
    }
    rc
}

fn gen_lib_once(args: &[String]) -> i32 {
    let mut cfg = conjure_codegen::Config::new();
    let mut product_name: Option<String> = None;
    let mut product_version: Option<String> = None;
    let mut crate_version: Option<String> = None;
    let mut positional = Vec::new();
    let mut omit_default_version = false;
    let mut it = args.iter();
    while let Some(a) = it.next() {
        match a.as_str() {
            // (understood by this driver only)
            "--omit-default-version" => omit_default_version = true,
            "--exhaustive" | "--exhaustive=true" => {
                cfg.exhaustive(true);
            }
            "--exhaustive=false" => {
                cfg.exhaustive(false);
            }
            "--serializeEmptyCollections" | "--serializeEmptyCollections=true" => {
                cfg.serialize_empty_collections(true);
            }
            "--serializeEmptyCollections=false" => {
                cfg.serialize_empty_collections(false);
            }
            "--stripPrefix" => {
                cfg.strip_prefix(it.next().cloned());
            }
            "--productName" => product_name = it.next().cloned(),
            "--productVersion" => product_version = it.next().cloned(),
            "--crateVersion" => crate_version = it.next().cloned(),
            "generate" => {}
            o => positional.push(o.to_string()),
        }
    }
    // "--crateVersion: The version of the generated crate. Defaults to --productVersion"
    if let (Some(name), Some(v)) = (&product_name, crate_version.as_ref().or(product_version.as_ref())) {
        cfg.build_crate(name, v);
    }
    // "Config::version ... Defaults to the version passed to build_crate": when no separate crate
    // version is given the explicit call is redundant, and a build script may leave it out
    let redundant = product_name.is_some() && crate_version.is_none();
    if let Some(v) = product_version {
        if !(omit_default_version && redundant) {
            cfg.version(v);
        }
    }
    // reach probe: iteration order of a std HashMap under this process's hash seed
    if let Ok(text) = std::fs::read_to_string(&positional[0]) {
        if let Ok(v) = serde_json::from_str::<Value>(&text) {
            let mut m = std::collections::HashMap::new();
            for t in v["types"].as_array().into_iter().flatten() {
                let k = t["type"].as_str().unwrap_or("");
                m.insert(t[k]["typeName"]["name"].as_str().unwrap_or("").to_string(), ());
            }
            for i in 0..16 {
                m.insert(format!("probe{}", i), ());
            }
            let mut f = crate::tape::Fnv::default();
            for k in m.keys() {
                f.write_str(k);
            }
            println!("ORDER {:016x}", f.0);
        }
    }
    match cfg.generate_files(&positional[0], &positional[1]) {
        Ok(()) => 0,
        Err(e) => {
            eprintln!("{e:?}");
            1
        }
    }
}

fn read_tree(root: &Path) -> BTreeMap<String, Vec<u8>> {
    fn walk(dir: &Path, base: &Path, out: &mut BTreeMap<String, Vec<u8>>) {
        let Ok(rd) = std::fs::read_dir(dir) else { return };
        let mut entries: Vec<_> = rd.filter_map(|e| e.ok()).collect();
        entries.sort_by_key(|e| e.file_name());
        for e in entries {
            let p = e.path();
            let rel = p.strip_prefix(base).unwrap().to_string_lossy().to_string();
            match e.file_type() {
                Ok(t) if t.is_dir() => {
                    out.insert(format!("{}/", rel), vec![]);
                    walk(&p, base, out);
                }
                Ok(t) if t.is_symlink() => {
                    out.insert(format!("{}@", rel), std::fs::read_link(&p).map(|l| l.to_string_lossy().as_bytes().to_vec()).unwrap_or_default());
                }
                _ => {
                    out.insert(rel, std::fs::read(&p).unwrap_or_default());
                }
            }
        }
    }
    let mut out = BTreeMap::new();
    walk(root, root, &mut out);
    out
}

/// strace prints bytes outside printable ASCII as C escapes (`\\303\\251`, `\\n`, `\\"`).
fn unescape_strace(s: &str) -> String {
    let b = s.as_bytes();
    let mut out = Vec::with_capacity(b.len());
    let mut i = 0;
    while i < b.len() {
        if b[i] != b'\\' || i + 1 >= b.len() {
            out.push(b[i]);
            i += 1;
            continue;
        }
        let c = b[i + 1];
        if (b'0'..=b'7').contains(&c) {
            let mut v = 0u32;
            let mut j = i + 1;
            while j < b.len() && j < i + 4 && (b'0'..=b'7').contains(&b[j]) {
                v = v * 8 + (b[j] - b'0') as u32;
                j += 1;
            }
            out.push(v as u8);
            i = j;
        } else {
            out.push(match c {
                b'n' => b'\n',
                b't' => b'\t',
                b'r' => b'\r',
                b'v' => 0x0b,
                b'f' => 0x0c,
                other => other,
            });
            i += 2;
        }
    }
    String::from_utf8_lossy(&out).to_string()
}

/// Paths a traced process created, opened for writing, renamed to or linked (successful calls only).
fn created_paths(strace: &str, cwd: &Path) -> Vec<String> {
    let mut out = Vec::new();
    for line in strace.lines() {
        // "<pid> name(args) = ret"
        let Some(eq) = line.rfind(" = ") else { continue };
        let ret = line[eq + 3..].trim();
        if ret.starts_with('-') || ret.starts_with('?') {
            continue;
        }
        let body = &line[..eq];
        let Some(paren) = body.find('(') else { continue };
        let name = body[..paren].rsplit(' ').next().unwrap_or("");
        let args = &body[paren + 1..];
        // quoted strings in order
        let mut strs = Vec::new();
        let mut rest = args;
        while let Some(a) = rest.find('"') {
            let tail = &rest[a + 1..];
            let mut end = None;
            let mut esc = false;
            for (i, c) in tail.char_indices() {
                if esc {
                    esc = false;
                } else if c == '\\' {
                    esc = true;
                } else if c == '"' {
                    end = Some(i);
                    break;
                }
            }
            let Some(e) = end else { break };
            strs.push(unescape_strace(&tail[..e]));
            rest = &tail[e + 1..];
        }
        let writes = match name {
            "open" | "openat" => args.contains("O_CREAT") || args.contains("O_WRONLY") || args.contains("O_RDWR"),
            "creat" | "mkdir" | "mkdirat" => true,
            "rename" | "renameat" | "renameat2" | "symlink" | "symlinkat" | "link" | "linkat" => true,
            _ => false,
        };
        if !writes {
            continue;
        }
        let targets: Vec<&String> = match name {
            // the created name is the last path argument; for renames the source is (re)moved too
            "rename" | "renameat" | "renameat2" | "link" | "linkat" => strs.iter().collect(),
            "symlink" | "symlinkat" => strs.iter().skip(1).collect(),
            _ => strs.iter().take(1).collect(),
        };
        for t in targets {
            let p = if t.starts_with('/') { PathBuf::from(t) } else { cwd.join(t) };
            // normalise "." and ".."
            let mut norm = PathBuf::new();
            for c in p.components() {
                match c {
                    std::path::Component::ParentDir => {
                        norm.pop();
                    }
                    std::path::Component::CurDir => {}
                    o => norm.push(o),
                }
            }
            out.push(norm.to_string_lossy().to_string());
        }
    }
    out
}

fn list_tree(root: &Path, skip: &Path) -> Vec<String> {
    fn walk(dir: &Path, skip: &Path, out: &mut Vec<String>) {
        let Ok(rd) = std::fs::read_dir(dir) else { return };
        for e in rd.filter_map(|e| e.ok()) {
            let p = e.path();
            if p == skip {
                continue;
            }
            out.push(p.to_string_lossy().to_string());
            if e.file_type().map(|t| t.is_dir()).unwrap_or(false) {
                walk(&p, skip, out);
            }
        }
    }
    let mut out = Vec::new();
    walk(root, skip, &mut out);
    out.sort();
    out
}

// ---------------------------------------------------------- IR generation --

fn prim(t: &mut Tape) -> Value {
    json!({"type": "primitive", "primitive": *t.pick(&["STRING", "INTEGER", "DOUBLE", "SAFELONG", "BOOLEAN", "UUID", "RID", "BEARERTOKEN", "DATETIME", "BINARY", "ANY"])})
}

fn key_prim(t: &mut Tape) -> Value {
    json!({"type": "primitive", "primitive": *t.pick(&["STRING", "INTEGER", "DOUBLE", "SAFELONG", "BOOLEAN", "UUID", "RID", "BEARERTOKEN", "DATETIME"])})
}

struct IrGen {
    names: Vec<(String, String, &'static str)>, // name, package, kind
}

impl IrGen {
    fn tref(&self, i: usize) -> Value {
        json!({"type": "reference", "reference": {"name": self.names[i].0, "package": self.names[i].1}})
    }

    /// a type for a field of type index `me`: direct references only to earlier
    /// types, any reference below an optional / collection
    fn ty(&self, t: &mut Tape, me: usize, depth: u32, boxed: bool) -> Value {
        match t.draw(if depth > 2 { 3 } else { 9 }) {
            0 | 1 => prim(t),
            2 => {
                let hi = if boxed { self.names.len() } else { me };
                if hi == 0 {
                    prim(t)
                } else {
                    self.tref(t.draw(hi as u64) as usize)
                }
            }
            3 => json!({"type": "optional", "optional": {"itemType": self.ty(t, me, depth + 1, true)}}),
            4 => json!({"type": "list", "list": {"itemType": self.ty(t, me, depth + 1, true)}}),
            5 => json!({"type": "set", "set": {"itemType": self.ty(t, me, depth + 1, true)}}),
            6 | 7 => {
                let enums: Vec<usize> = (0..self.names.len()).filter(|i| self.names[*i].2 == "enum").collect();
                let k = if !enums.is_empty() && t.chance(1, 3) {
                    self.tref(*t.pick(&enums))
                } else {
                    key_prim(t)
                };
                json!({"type": "map", "map": {"keyType": k, "valueType": self.ty(t, me, depth + 1, true)}})
            }
            _ => json!({"type": "external", "external": {"externalReference": {"name": "Ext", "package": "com.other"}, "fallback": prim(t)}}),
        }
    }
}

const FIELD_NAMES: &[&str] = &["foo", "barBaz", "type", "self", "fn", "value", "a", "b", "c", "async", "match", "x1", "longFieldName", "id", "box"];

pub fn random_ir(t: &mut Tape) -> Value {
    let packages = ["com.palantir.a", "com.palantir.a.b", "com.palantir.a.b.c", "com.palantir.z", "org.other", "com.palantir"];
    let n = 1 + t.draw(10) as usize;
    let mut g = IrGen { names: vec![] };
    for i in 0..n {
        let kind = *t.pick(&["enum", "alias", "object", "object", "union"]);
        let base = *t.pick(&["Thing", "Type", "Self", "Node", "Option", "Result", "Box", "Vec", "Item", "Error"]);
        let pkg = t.pick(&packages).to_string();
        let mut name = format!("{}{}", base, i);
        // now and then two packages declare a type of the same simple name (legal Conjure: the
        // type table is keyed by package + name); the pair (name, package) stays unique
        if i > 0 && t.chance(1, 3) {
            let (other, other_pkg, _) = g.names[t.draw(i as u64) as usize].clone();
            if other_pkg != pkg && !g.names.iter().any(|(n, p, _)| *n == other && *p == pkg) {
                name = other;
            }
        }
        g.names.push((name, pkg, kind));
    }
    let mut types = Vec::new();
    for i in 0..n {
        let (name, pkg, kind) = g.names[i].clone();
        let tn = json!({"name": name, "package": pkg});
        let nf = t.draw(5) as usize;
        let mut fnames: Vec<&str> = Vec::new();
        while fnames.len() < nf {
            let f = *t.pick(FIELD_NAMES);
            if !fnames.contains(&f) {
                fnames.push(f);
            }
        }
        let def = match kind {
            "enum" => {
                let nv = t.draw(4) as usize;
                let vals: Vec<Value> = (0..nv).map(|j| json!({"value": format!("V_{}", j)})).collect();
                json!({"type": "enum", "enum": {"typeName": tn, "values": vals}})
            }
            "alias" => {
                let mut d = json!({"typeName": tn, "alias": g.ty(t, i, 1, false)});
                if t.chance(1, 3) {
                    d["safety"] = json!(*t.pick(&["SAFE", "UNSAFE", "DO_NOT_LOG"]));
                }
                json!({"type": "alias", "alias": d})
            }
            "object" => {
                let fields: Vec<Value> = fnames
                    .iter()
                    .map(|f| {
                        let mut fd = json!({"fieldName": f, "type": g.ty(t, i, 0, false)});
                        if t.chance(1, 4) {
                            fd["docs"] = json!("docs with `ticks` and */ stuff\nsecond line");
                        }
                        if t.chance(1, 5) {
                            fd["deprecated"] = json!("old");
                        }
                        fd
                    })
                    .collect();
                json!({"type": "object", "object": {"typeName": tn, "fields": fields}})
            }
            _ => {
                let fields: Vec<Value> = fnames.iter().map(|f| json!({"fieldName": f, "type": g.ty(t, i, 0, true)})).collect();
                json!({"type": "union", "union": {"typeName": tn, "union": fields}})
            }
        };
        types.push(def);
    }
    let mut errors = Vec::new();
    for j in 0..t.draw(3) {
        let mut args = |t: &mut Tape| -> Vec<Value> {
            let k = t.draw(4) as usize;
            let mut seen: Vec<&str> = vec![];
            let mut out = vec![];
            for _ in 0..k {
                let f = *t.pick(FIELD_NAMES);
                if !seen.contains(&f) {
                    seen.push(f);
                    out.push(json!({"fieldName": f, "type": g.ty(t, n, 1, true)}));
                }
            }
            out
        };
        let safe = args(t);
        let safe_names: Vec<String> = safe.iter().map(|a| a["fieldName"].as_str().unwrap().to_string()).collect();
        let uns: Vec<Value> = args(t).into_iter().filter(|a| !safe_names.contains(&a["fieldName"].as_str().unwrap().to_string())).collect();
        errors.push(json!({
            "errorName": {"name": format!("Err{}", j), "package": t.pick(&packages)},
            "namespace": "Ns",
            "code": *t.pick(&["INTERNAL", "INVALID_ARGUMENT", "NOT_FOUND", "CONFLICT"]),
            "safeArgs": safe,
            "unsafeArgs": uns,
        }));
    }
    let mut services = Vec::new();
    for s in 0..t.draw(3) {
        let mut eps = Vec::new();
        for e in 0..t.draw(5) {
            let mut args = Vec::new();
            let mut path = format!("/svc{}/ep{}", s, e);
            let mut used: Vec<&str> = vec![];
            let mut pick_name = |t: &mut Tape, used: &mut Vec<&'static str>| -> Option<&'static str> {
                let f = *t.pick(FIELD_NAMES);
                if used.contains(&f) {
                    None
                } else {
                    used.push(f);
                    Some(f)
                }
            };
            let mut used_s: Vec<&'static str> = vec![];
            for _ in 0..t.draw(3) {
                if let Some(f) = pick_name(t, &mut used_s) {
                    path.push_str(&format!("/{{{}}}", f));
                    args.push(json!({"argName": f, "type": json!({"type":"primitive","primitive": *t.pick(&["STRING","INTEGER","UUID","RID","BOOLEAN"])}), "paramType": {"type": "path", "path": {}}, "markers": [], "tags": []}));
                }
            }
            for _ in 0..t.draw(3) {
                if let Some(f) = pick_name(t, &mut used_s) {
                    let ty = match t.draw(4) {
                        0 => json!({"type":"primitive","primitive":"STRING"}),
                        1 => json!({"type":"optional","optional":{"itemType":{"type":"primitive","primitive":"INTEGER"}}}),
                        2 => json!({"type":"list","list":{"itemType":{"type":"primitive","primitive":"STRING"}}}),
                        _ => json!({"type":"set","set":{"itemType":{"type":"primitive","primitive":"BOOLEAN"}}}),
                    };
                    let mut a = json!({"argName": f, "type": ty, "paramType": {"type": "query", "query": {"paramId": format!("q-{}", f)}}, "markers": [], "tags": []});
                    if t.chance(1, 3) {
                        a["safety"] = json!(*t.pick(&["SAFE", "UNSAFE", "DO_NOT_LOG"]));
                    }
                    args.push(a);
                }
            }
            for _ in 0..t.draw(2) {
                if let Some(f) = pick_name(t, &mut used_s) {
                    let ty = if t.chance(1, 2) {
                        json!({"type":"primitive","primitive":"STRING"})
                    } else {
                        json!({"type":"optional","optional":{"itemType":{"type":"primitive","primitive":"UUID"}}})
                    };
                    args.push(json!({"argName": f, "type": ty, "paramType": {"type": "header", "header": {"paramId": format!("X-{}", f)}}, "markers": [], "tags": []}));
                }
            }
            let has_body = t.chance(1, 2);
            if has_body {
                if let Some(f) = pick_name(t, &mut used_s) {
                    let ty = if t.chance(1, 4) { json!({"type":"primitive","primitive":"BINARY"}) } else { g.ty(t, n, 1, true) };
                    args.push(json!({"argName": f, "type": ty, "paramType": {"type": "body", "body": {}}, "markers": [], "tags": []}));
                }
            }
            let _ = &mut used;
            let mut ep = json!({
                "endpointName": format!("{}{}", *t.pick(&["get", "type", "fn", "doIt", "async"]), e),
                "httpMethod": if has_body { *t.pick(&["POST", "PUT"]) } else { *t.pick(&["GET", "DELETE", "POST"]) },
                "httpPath": path,
                "args": args,
                "markers": [],
                "tags": endpoint_tags(t),
            });
            match t.draw(4) {
                0 => {}
                1 => ep["returns"] = json!({"type":"primitive","primitive":"BINARY"}),
                2 => ep["returns"] = json!({"type":"optional","optional":{"itemType":{"type":"primitive","primitive":"BINARY"}}}),
                _ => ep["returns"] = g.ty(t, n, 1, true),
            }
            match t.draw(3) {
                0 => {}
                1 => ep["auth"] = json!({"type": "header", "header": {}}),
                _ => ep["auth"] = json!({"type": "cookie", "cookie": {"cookieName": "ck"}}),
            }
            if t.chance(1, 6) {
                ep["deprecated"] = json!("use something else");
            }
            eps.push(ep);
        }
        services.push(json!({"serviceName": {"name": format!("Svc{}", s), "package": t.pick(&packages)}, "endpoints": eps}));
    }
    json!({"version": 1, "errors": errors, "types": types, "services": services, "extensions": extensions(t)})
}

/// the `extensions` block of an IR: product dependencies end up in a generated crate's manifest
fn extensions(t: &mut Tape) -> Value {
    match t.draw(3) {
        0 => json!({}),
        1 => json!({"recommended-product-dependencies": []}),
        _ => {
            let n = 1 + t.draw(6);
            let deps: Vec<Value> = (0..n)
                .map(|i| {
                    json!({
                        "product-group": format!("com.palantir.{}", *t.pick(&["alpha", "beta", "gamma", "delta"])),
                        "product-name": format!("service-{}", i),
                        "minimum-version": format!("{}.{}.0", 1 + t.draw(9), t.draw(20)),
                        "maximum-version": format!("{}.x.x", 10 + t.draw(5)),
                        "recommended-version": format!("{}.{}.{}", 1 + t.draw(9), t.draw(20), t.draw(9)),
                    })
                })
                .collect();
            json!({"recommended-product-dependencies": deps, "other-extension": {"k": [1, 2, 3]}})
        }
    }
}

/// IRs rich in reference cycles: rings of objects whose members reach doubles,
/// bearer tokens and unannotated strings through differently ordered fields,
/// plus outsiders (objects, unions, aliases, errors, endpoint arguments) that
/// refer into the ring.  This is where order-dependent memoisation lives.
pub fn cyclic_ir(t: &mut Tape) -> Value {
    let pkg = |t: &mut Tape| -> &'static str { *t.pick(&["com.palantir.ring", "com.palantir.ring.inner", "com.palantir.other"]) };
    let k = 2 + t.draw(3) as usize;
    let ring: Vec<(String, &'static str)> = (0..k).map(|i| (format!("Ring{}", i), pkg(t))).collect();
    let rref = |i: usize| json!({"type": "reference", "reference": {"name": ring[i].0, "package": ring[i].1}});
    let leaf = |t: &mut Tape| -> Value {
        json!({"type": "primitive", "primitive": *t.pick(&["DOUBLE", "DOUBLE", "BEARERTOKEN", "STRING", "INTEGER", "UUID", "BINARY"])})
    };
    let wrap = |t: &mut Tape, inner: Value| -> Value {
        match t.draw(4) {
            0 => json!({"type": "optional", "optional": {"itemType": inner}}),
            1 => json!({"type": "list", "list": {"itemType": inner}}),
            2 => json!({"type": "set", "set": {"itemType": inner}}),
            _ => json!({"type": "map", "map": {"keyType": {"type": "primitive", "primitive": "STRING"}, "valueType": inner}}),
        }
    };
    let mut types = Vec::new();
    for i in 0..k {
        let mut fields: Vec<Value> = Vec::new();
        // the link that closes the ring is always below a container; the others may be direct
        let next = (i + 1) % k;
        let link = if next == 0 || t.chance(1, 2) { wrap(t, rref(next)) } else { rref(next) };
        fields.push(json!({"fieldName": "next", "type": link}));
        for (j, name) in ["weight", "label", "extra"].iter().enumerate() {
            if t.chance(1, 2) {
                let lf = leaf(t);
                let fty = if t.chance(1, 3) { wrap(t, lf) } else { lf };
                let mut f = json!({"fieldName": name, "type": fty});
                if j == 1 && t.chance(1, 4) {
                    f["safety"] = json!(*t.pick(&["SAFE", "UNSAFE", "DO_NOT_LOG"]));
                }
                fields.push(f);
            }
        }
        if k > 2 && t.chance(1, 3) {
            let other = t.draw(k as u64) as usize;
            fields.push(json!({"fieldName": "chord", "type": wrap(t, rref(other))}));
        }
        // field order decides which way the memoised walkers enter the cycle
        for a in (1..fields.len()).rev() {
            let b = t.draw(a as u64 + 1) as usize;
            fields.swap(a, b);
        }
        types.push(json!({"type": "object", "object": {"typeName": {"name": ring[i].0, "package": ring[i].1}, "fields": fields}}));
    }
    let n_out = 1 + t.draw(4) as usize;
    let mut outsiders: Vec<(String, &'static str)> = Vec::new();
    for o in 0..n_out {
        let name = format!("Outsider{}", o);
        let p = pkg(t);
        let target = rref(t.draw(k as u64) as usize);
        let def = match t.draw(3) {
            0 => json!({"type": "object", "object": {"typeName": {"name": name, "package": p}, "fields": [
                {"fieldName": "entries", "type": wrap(t, target)},
                {"fieldName": "name", "type": {"type": "primitive", "primitive": "STRING"}}]}}),
            1 => json!({"type": "union", "union": {"typeName": {"name": name, "package": p}, "union": [
                {"fieldName": "ring", "type": target},
                {"fieldName": "none", "type": {"type": "primitive", "primitive": "INTEGER"}}]}}),
            _ => json!({"type": "alias", "alias": {"typeName": {"name": name, "package": p}, "alias": wrap(t, target)}}),
        };
        outsiders.push((name, p));
        types.push(def);
    }
    // declaration order of the IR is part of the input: shuffle it
    for a in (1..types.len()).rev() {
        let b = t.draw(a as u64 + 1) as usize;
        types.swap(a, b);
    }
    let any_ref = |t: &mut Tape| -> Value {
        if t.chance(1, 2) {
            rref(t.draw(k as u64) as usize)
        } else {
            let (n, p) = &outsiders[t.draw(outsiders.len() as u64) as usize];
            json!({"type": "reference", "reference": {"name": n, "package": p}})
        }
    };
    let mut eps = Vec::new();
    for e in 0..1 + t.draw(4) {
        let mut args = vec![json!({"argName": "body", "type": any_ref(t), "paramType": {"type": "body", "body": {}}, "markers": [], "tags": []})];
        if t.chance(1, 2) {
            args.push(json!({"argName": "q", "type": {"type": "primitive", "primitive": "STRING"}, "paramType": {"type": "query", "query": {"paramId": "q"}}, "markers": [], "tags": []}));
        }
        let mut ep = json!({"endpointName": format!("hold{}", e), "httpMethod": "POST", "httpPath": format!("/ring/{}", e), "args": args, "markers": [], "tags": endpoint_tags(t)});
        if t.chance(1, 2) {
            ep["returns"] = any_ref(t);
        }
        eps.push(ep);
    }
    let errors = if t.chance(1, 2) {
        json!([{ "errorName": {"name": "RingError", "package": "com.palantir.ring"}, "namespace": "Ring", "code": "INVALID_ARGUMENT",
                 "safeArgs": [{"fieldName": "member", "type": any_ref(t)}], "unsafeArgs": [{"fieldName": "other", "type": any_ref(t)}] }])
    } else {
        json!([])
    };
    json!({"version": 1, "errors": errors, "types": types,
           "services": [{"serviceName": {"name": "HolderService", "package": "com.palantir.ring"}, "endpoints": eps}], "extensions": extensions(t)})
}

const REPO_IRS: &[&str] = &[
    "/repo/conjure-test/test-ir.json",
    "/repo/conjure-codegen/example-types-ir.json",
    "/repo/conjure-error/error-types.conjure.json",
    "/repo/conjure-codegen/conjure-api-4.32.0.conjure.json",
    "/verif/sim/ir/sim-ir.json",
];

static SCRATCH_COUNTER: AtomicU64 = AtomicU64::new(0);

/// Endpoint tags: the ones the generator interprets (request context, request size limits - none,
/// one, several agreeing, several conflicting, in assorted spellings) and ones it does not know.
fn endpoint_tags(t: &mut Tape) -> Value {
    let mut tags: Vec<String> = Vec::new();
    if t.chance(1, 4) {
        tags.push("server-request-context".into());
    }
    if t.chance(1, 3) {
        let n = 1 + t.size(3);
        for _ in 0..n {
            let size = *t.pick(&["1kb", "1 kb", "1000b", "1000", "2kib", "2048b", "3mb", "50 MiB", "10b", "0b", "1gb"]);
            tags.push(format!("server-limit-request-size:{}{}", if t.chance(1, 2) { " " } else { "" }, size));
        }
    }
    if t.chance(1, 6) {
        tags.push(t.pick(&["incubating", "server-async", "deprecated-soon", "server-limit-request-size", "Server-Request-Context"]).to_string());
    }
    // order as drawn, sometimes reversed: tags are a set in the IR
    if t.chance(1, 2) {
        tags.reverse();
    }
    json!(tags)
}

struct Exec {
    label: String,
    ok: bool,
    stderr: String,
    tree: BTreeMap<String, Vec<u8>>,
    order: Option<String>,
    escaped: Vec<String>,
    /// the write fault this execution ran under, and whether it fired
    write_fault: Option<(String, bool)>,
}

impl Engine for GenEngine {
    fn property(&self) -> &'static str {
        "C20"
    }

    fn name(&self) -> &'static str {
        "gen-c20"
    }

    fn run(&self, ctx: &Ctx, _variant: u64) {
        // ---- scenario
        let (ir_label, ir_text) = match ctx.draw(12) {
            i @ 0..=4 => {
                let p = REPO_IRS[i as usize];
                (p.to_string(), std::fs::read_to_string(p).unwrap_or_default())
            }
            5..=8 => {
                let v = ctx.with_tape(cyclic_ir);
                ctx.count("probe.cyclic_ir");
                ("cyclic".to_string(), v.to_string())
            }
            _ => {
                let v = ctx.with_tape(random_ir);
                ctx.count("probe.random_ir");
                let simple: Vec<&str> = v["types"].as_array().map(|a| a.iter().filter_map(|d| d[d["type"].as_str().unwrap_or("")]["typeName"]["name"].as_str()).collect()).unwrap_or_default();
                if simple.iter().enumerate().any(|(i, n)| simple[..i].contains(n)) {
                    ctx.count("probe.same_simple_type_name_in_two_packages");
                }
                ("random".to_string(), v.to_string())
            }
        };
        let prefixes = ["com", "com.palantir", "com.palantir.conjure", "com.palantir.a", "com.palantir.sim", "com.palantir.a.b", "org"];
        let cfg = Config {
            exhaustive: ctx.with_tape(|t| *t.pick(&[None, Some(true), Some(false)])),
            serialize_empty: ctx.with_tape(|t| *t.pick(&[None, Some(true), Some(false)])),
            strip_prefix: if ctx.chance(1, 2) { Some(ctx.with_tape(|t| t.pick(&prefixes).to_string())) } else { None },
            product: if ctx.chance(1, 3) { Some(("my-product".to_string(), "1.2.3".to_string())) } else { None },
            crate_version: None,
        };
        let cfg = Config {
            crate_version: if cfg.product.is_some() && ctx.chance(1, 2) { Some("4.5.6-rc1".into()) } else { None },
            ..cfg
        };
        ctx.sig(&ir_label);
        ctx.sig(&cfg.describe());
        ctx.log(|| format!("scenario ir={} ({}B) config={}", ir_label, ir_text.len(), cfg.describe()));
        let id = SCRATCH_COUNTER.fetch_add(1, Ordering::SeqCst);
        let root = PathBuf::from(format!("{}/{}-{}", SCRATCH, std::process::id(), id));
        let _ = std::fs::remove_dir_all(&root);
        std::fs::create_dir_all(root.join("in")).unwrap();
        std::fs::write(root.join("in/ir.json"), &ir_text).unwrap();
        let self_exe = std::env::current_exe().unwrap();
        let mut execs: Vec<Exec> = Vec::new();
        for x in 0..self.executions {
            // ---- one execution: its own seed, clock, cwd, HOME, TMPDIR, env noise, out path, entry point
            let hash_seed = ctx.with_tape(|t| t.bits());
            let clock = 946_684_800u64 + ctx.draw(3_000_000_000);
            let use_cli = ctx.chance(1, 2);
            let rel_out = ctx.chance(1, 2);
            let depth = ctx.draw(3);
            let xdir = root.join(format!("x{}", x));
            let cwd = xdir.join("cwd");
            let home = xdir.join("home");
            let tmp = xdir.join("tmp");
            for d in [&cwd, &home, &tmp] {
                std::fs::create_dir_all(d).unwrap();
            }
            let mut out_rel = String::from("out");
            for d in 0..depth {
                out_rel.push_str(&format!("/d{}", d));
            }
            // the last component is the user's choice: names that mean something to Cargo or to
            // the generator itself must not change what is written
            out_rel.push('/');
            out_rel.push_str(ctx.with_tape(|t| *t.pick(&["generated", "g e n", "src", "lib", "mod", "target", "out", "src.rs", "SRC", "tests", "conjure", "r\u{e9}sultat", ".hidden", "a.b"])));
            let out_abs = cwd.join(&out_rel);
            let out_arg = if rel_out { out_rel.clone() } else { out_abs.to_string_lossy().to_string() };
            let mut noise: Vec<(String, String)> = (0..ctx.draw(4)).map(|i| (format!("NOISE_{}", i), format!("{}", ctx.draw(1 << 30)))).collect();
            // what Cargo sets for a build script (the documented way to call the library), a shell
            // or a CI runner: present in some executions, absent in others, with drawn values
            if ctx.chance(1, 2) {
                let ver = format!("{}.{}.{}", ctx.draw(30), ctx.draw(30), ctx.draw(30));
                for (k, v) in [
                    ("CARGO_PKG_VERSION", ver.clone()),
                    ("CARGO_PKG_VERSION_MAJOR", ver.split('.').next().unwrap().to_string()),
                    ("CARGO_PKG_NAME", format!("embedding-crate-{}", ctx.draw(100))),
                    ("CARGO_PKG_AUTHORS", "Someone <someone@example.com>".to_string()),
                    ("CARGO_PKG_DESCRIPTION", format!("description {}", ctx.draw(100))),
                    ("CARGO_MANIFEST_DIR", cwd.to_string_lossy().to_string()),
                    ("CARGO_CRATE_NAME", "embedding_crate".to_string()),
                    ("OUT_DIR", tmp.to_string_lossy().to_string()),
                    ("PROFILE", ctx.with_tape(|t| t.pick(&["debug", "release"]).to_string())),
                    ("TARGET", "x86_64-unknown-linux-gnu".to_string()),
                    ("HOST", "x86_64-unknown-linux-gnu".to_string()),
                    ("OPT_LEVEL", ctx.draw(4).to_string()),
                    ("NUM_JOBS", (1 + ctx.draw(64)).to_string()),
                    ("RUSTC", "rustc".to_string()),
                    ("CARGO", "/usr/bin/cargo".to_string()),
                ] {
                    if ctx.chance(7, 8) {
                        noise.push((k.to_string(), v));
                    }
                }
                ctx.count("fault.cargo_build_script_environment");
            }
            for (k, vals) in [
                ("SOURCE_DATE_EPOCH", &["0", "1700000000"][..]),
                ("RUST_LOG", &["trace", "debug"]),
                ("RUST_BACKTRACE", &["1", "full", "0"]),
                ("LC_ALL", &["C", "tr_TR.UTF-8", "de_DE.UTF-8"]),
                ("USER", &["root", "builder", "ci"]),
                ("CI", &["true", "1"]),
                ("NO_COLOR", &["1"]),
                ("TERM", &["dumb", "xterm-256color"]),
                ("COLUMNS", &["40", "200"]),
            ] {
                if ctx.chance(1, 4) {
                    noise.push((k.to_string(), ctx.with_tape(|t| t.pick(vals).to_string())));
                }
            }
            let before = list_tree(&root, &out_abs);
            let _ = std::fs::create_dir_all(xdir.join("warmup-out"));
            // environment faults: the temp directory is missing, or already holds entries named like generated files
            let tmp_state = ctx.draw(6);
            match tmp_state {
                4 => {
                    let _ = std::fs::remove_dir_all(&tmp);
                    ctx.count("fault.tmpdir_missing");
                }
                5 => {
                    for d in ["mod.rs", "lib.rs", "Cargo.toml", "rustfmt.toml"] {
                        let _ = std::fs::create_dir_all(tmp.join(d));
                    }
                    ctx.count("fault.tmpdir_with_decoy_entries");
                }
                _ => {}
            }
            // a fraction of the executions runs under strace: every file-creating system call is checked
            let traced = ctx.chance(1, 4);
            // disk faults: the k-th write to a regular file fails (disk full from then on, or one
            // I/O error), is interrupted, or is short. Never in the first execution (the reference).
            // (kept outside the sandbox, which is searched for files the generator must not create)
            let fault_log = root.with_file_name(format!("{}-x{}-write-faults.log", root.file_name().map(|n| n.to_string_lossy().to_string()).unwrap_or_default(), x));
            let write_fault: Option<String> = if x > 0 && !traced && ctx.chance(1, 4) {
                let kind = ctx.with_tape(|t| *t.pick(&["enospc", "eio", "eintr", "short"]));
                let k = 1 + ctx.with_tape(|t| t.size(60));
                ctx.count("fault.write_fault_configured");
                Some(format!("{}:{}", kind, k))
            } else {
                None
            };
            let trace_file = xdir.join("strace.txt");
            let warm = !use_cli && ctx.chance(1, 2);
            let warm_out = xdir.join("warmup-out");
            let program: std::ffi::OsString = if use_cli {
                std::env::var("VERIF_CLI").unwrap_or_else(|_| CLI.to_string()).into()
            } else {
                self_exe.clone().into()
            };
            let mut base = if traced {
                let mut c = Command::new("strace");
                c.args(["-f", "-qq", "-e", "trace=open,openat,creat,mkdir,mkdirat,rename,renameat,renameat2,symlink,symlinkat,link,linkat", "-o"]);
                c.arg(&trace_file);
                c.arg(&program);
                ctx.count("probe.executions_under_strace");
                c
            } else {
                Command::new(&program)
            };
            let spelling = ctx.draw(4);
            let mut cmd = if use_cli {
                base.args(cfg.cli_args(spelling));
                base
            } else {
                let mut c = base;
                c.arg("gen-lib");
                if warm {
                    // an earlier generation in the same process (as conjure-test's build script does):
                    // same definition, another drawn configuration, its own output directory
                    let wcfg = Config {
                        exhaustive: ctx.with_tape(|t| *t.pick(&[None, Some(true), Some(false)])),
                        serialize_empty: ctx.with_tape(|t| *t.pick(&[None, Some(true), Some(false)])),
                        strip_prefix: if ctx.chance(1, 2) { Some(ctx.with_tape(|t| t.pick(&prefixes).to_string())) } else { None },
                        product: if ctx.chance(1, 3) { Some(("other-product".to_string(), "9.9.9".to_string())) } else { None },
                        crate_version: None,
                    };
                    c.args(wcfg.cli_args(ctx.draw(4)));
                    c.arg(root.join("in/ir.json")).arg(&warm_out);
                    c.arg("--then");
                    ctx.count("fault.earlier_generation_in_same_process");
                }
                c.args(cfg.cli_args(spelling));
                if ctx.chance(1, 2) {
                    c.arg("--omit-default-version");
                }
                c
            };
            cmd.arg(root.join("in/ir.json")).arg(&out_arg);
            cmd.env_clear()
                .env("LD_PRELOAD", std::env::var("VERIF_SHIM").unwrap_or_else(|_| SHIM.to_string()))
                .env("VERIF_HASH_SEED", hash_seed.to_string())
                .env("VERIF_CLOCK", clock.to_string())
                .env("HOME", &home)
                .env("TMPDIR", &tmp)
                .env("PATH", "/usr/bin:/bin")
                .env("LANG", ctx.with_tape(|t| *t.pick(&["C", "en_US.UTF-8", "tr_TR.UTF-8"])))
                .env("TZ", ctx.with_tape(|t| *t.pick(&["UTC", "Asia/Tokyo", "America/New_York"])))
                .current_dir(&cwd);
            for (k, v) in &noise {
                cmd.env(k, v);
            }
            if let Some(wf) = &write_fault {
                cmd.env("VERIF_WRITE_FAULT", wf).env("VERIF_FAULT_LOG", &fault_log);
            }
            let label = format!(
                "x{} entry={} hash_seed={} clock={} out={:?}{} noise={}",
                x,
                if use_cli { "cli" } else if warm { "lib-after-earlier-generation" } else { "lib" },
                hash_seed,
                clock,
                out_arg.replace(&*root.to_string_lossy(), "$SANDBOX"),
                if rel_out { " (relative)" } else { "" },
                noise.len()
            );
            ctx.count(if use_cli { "probe.entry_cli" } else { "probe.entry_lib" });
            ctx.count("fault.hash_seed_drawn");
            ctx.count("fault.clock_jump_drawn");
            let output = cmd.output();
            let (ok, stderr, stdout) = match output {
                Ok(o) => (
                    o.status.success(),
                    String::from_utf8_lossy(&o.stderr).replace(&*root.to_string_lossy(), "$SANDBOX").chars().take(400).collect::<String>(),
                    String::from_utf8_lossy(&o.stdout).to_string(),
                ),
                Err(e) => {
                    ctx.violation("HARNESS", "spawn_failed", format!("{} :: {}", label, e));
                    (false, e.to_string(), String::new())
                }
            };
            let mut traced_outside: Vec<String> = Vec::new();
            if traced {
                if let Ok(text) = std::fs::read_to_string(&trace_file) {
                    for p in created_paths(&text, &cwd) {
                        let pb = PathBuf::from(&p);
                        let ok = pb.starts_with(&out_abs)
                            || out_abs.starts_with(&pb)
                            || pb.starts_with(&warm_out)
                            || p.starts_with("/dev/")
                            || p.starts_with("/proc/");
                        if !ok {
                            traced_outside.push(p.replace(&*root.to_string_lossy(), "$SANDBOX"));
                        }
                    }
                }
                let _ = std::fs::remove_file(&trace_file);
            }
            let after = list_tree(&root, &out_abs);
            let escaped: Vec<String> = after
                .iter()
                .filter(|p| !before.contains(p))
                // the ancestors of the requested output directory have to be created
                .filter(|p| !out_abs.starts_with(Path::new(p.as_str())))
                // the earlier generation's own output directory
                .filter(|p| !Path::new(p.as_str()).starts_with(&warm_out))
                .map(|p| p.replace(&*root.to_string_lossy(), "$SANDBOX"))
                // decoy entries placed by the harness itself
                .filter(|p| !(tmp_state == 5 && p.contains("/tmp/")))
                .chain(traced_outside.into_iter().map(|p| format!("(transient, seen by strace) {}", p)))
                .collect();
            let tree = read_tree(&out_abs);
            let order = stdout.lines().find_map(|l| l.strip_prefix("ORDER ")).map(|s| s.to_string());
            ctx.log(|| format!("exec {} -> ok={} files={} order={:?} escaped={:?} stderr={:?}", label, ok, tree.len(), order, escaped, stderr));
            let write_fault = write_fault.map(|wf| {
                let fired = std::fs::read_to_string(&fault_log).map(|t| !t.is_empty()).unwrap_or(false);
                if fired {
                    ctx.count(match wf.split(':').next().unwrap_or("") {
                        "enospc" => "fault.disk_full_fired",
                        "eio" => "fault.write_io_error_fired",
                        "eintr" => "fault.write_eintr_fired",
                        _ => "fault.short_file_write_fired",
                    });
                }
                (wf, fired)
            });
            let _ = std::fs::remove_file(&fault_log);
            let label = match &write_fault {
                Some((wf, fired)) => format!("{} write_fault={}{}", label, wf, if *fired { " (fired)" } else { " (not reached)" }),
                None => label,
            };
            execs.push(Exec {
                label,
                ok,
                stderr,
                tree,
                order,
                escaped,
                write_fault,
            });
        }
        let _ = std::fs::remove_dir_all(&root);
        // ---- oracle over the set of executions
        ctx.count_n("probe.executions", execs.len() as u64);
        let orders: std::collections::BTreeSet<&String> = execs.iter().filter_map(|e| e.order.as_ref()).collect();
        if orders.len() >= 2 {
            ctx.count("probe.hash_orders_differed_between_executions");
        }
        for e in &execs {
            if !e.escaped.is_empty() {
                ctx.violation("C20", "created_outside_output_directory", format!("{} created {:?}", e.label, e.escaped));
            }
        }
        // an execution that met a disk fault may fail; what it may not do is report success with
        // other bytes (it stays in the comparison when it reports success)
        let before_n = execs.len();
        execs.retain(|e| !(matches!(&e.write_fault, Some((_, true))) && !e.ok));
        ctx.count_n("probe.write_fault_reported_as_failure", (before_n - execs.len()) as u64);
        ctx.count_n("probe.write_fault_survived_with_success", execs.iter().filter(|e| matches!(&e.write_fault, Some((_, true)))).count() as u64);
        let oks = execs.iter().filter(|e| e.ok).count();
        if oks == 0 {
            ctx.count("probe.generation_refused_by_all_executions");
            ctx.sig("refused");
            return;
        }
        ctx.mark_nontrivial();
        ctx.sig("generated");
        if oks != execs.len() {
            let bad = execs.iter().find(|e| !e.ok).unwrap();
            ctx.violation("C20", "generation_succeeds_in_some_executions_only", format!("{} failed: {}", bad.label, bad.stderr));
            return;
        }
        let first = &execs[0];
        ctx.count_n("probe.files_compared", first.tree.len() as u64 * (execs.len() as u64 - 1));
        for e in &execs[1..] {
            if e.tree == first.tree {
                continue;
            }
            let a: Vec<&String> = first.tree.keys().collect();
            let b: Vec<&String> = e.tree.keys().collect();
            let cli_vs_lib = first.label.contains("entry=cli") != e.label.contains("entry=cli");
            if a != b {
                let only_a: Vec<&&String> = a.iter().filter(|k| !b.contains(k)).collect();
                let only_b: Vec<&&String> = b.iter().filter(|k| !a.contains(k)).collect();
                ctx.violation(
                    "C20",
                    if matches!(&e.write_fault, Some((_, true))) {
                        "file_sets_differ:success_reported_after_write_fault"
                    } else if cli_vs_lib {
                        "file_sets_differ:cli_vs_lib"
                    } else {
                        "file_sets_differ:same_entry"
                    },
                    format!("[{}] vs [{}]: only in first {:?}, only in second {:?}", first.label, e.label, only_a, only_b),
                );
            } else {
                let (k, (x, y)) = first
                    .tree
                    .iter()
                    .zip(e.tree.iter())
                    .find(|((_, x), (_, y))| x != y)
                    .map(|((k, x), (_, y))| (k, (x, y)))
                    .unwrap();
                let pos = x.iter().zip(y.iter()).position(|(p, q)| p != q).unwrap_or(x.len().min(y.len()));
                let lo = pos.saturating_sub(60);
                let class = if k.ends_with("mod.rs") || k.ends_with("lib.rs") {
                    "module_file"
                } else if k.ends_with(".toml") {
                    "manifest"
                } else {
                    "type_file"
                };
                ctx.violation(
                    "C20",
                    format!(
                        "contents_differ:{}:{}",
                        class,
                        if matches!(&e.write_fault, Some((_, true))) {
                            "success_reported_after_write_fault"
                        } else if cli_vs_lib {
                            "cli_vs_lib"
                        } else {
                            "same_entry"
                        }
                    ),
                    format!(
                        "[{}] vs [{}]: file {} differs at byte {}: {:?} vs {:?}",
                        first.label,
                        e.label,
                        k,
                        pos,
                        String::from_utf8_lossy(&x[lo..(pos + 60).min(x.len())]),
                        String::from_utf8_lossy(&y[lo..(pos + 60).min(y.len())])
                    ),
                );
            }
            break;
        }
    }

    fn components(&self) -> Value {
        json!({
            "real": ["the conjure-rust CLI binary built from /repo", "conjure_codegen::Config::generate_files (library entry point) from /repo"],
            "stub": [
                "LD_PRELOAD interposer (/verif/shim/interpose.c): getrandom/getentropy (=> every std RandomState), clock_gettime/time/gettimeofday",
                "scratch sandbox: cwd, HOME, TMPDIR, environment noise, output path (absolute/relative, depth, spaces)",
                "library driver mapping the documented flags onto Config",
                "seeded random IR generator (only has to satisfy the generator, not rustc)"
            ]
        })
    }

    fn rule(&self) -> String {
        format!("one run = one scenario (IR: one of four IR files shipped in /repo, ir/sim-ir.json, or a seeded random IR; configuration: exhaustive x serializeEmptyCollections x stripPrefix x module/crate output x versions) executed {} times as fresh processes, each with its own drawn hash seed, wall clock, cwd, HOME, TMPDIR, environment noise, output path and entry point (CLI / library); distinct = distinct (IR, configuration) signatures; non-trivial = the generator accepted the IR so that trees were compared", self.executions)
    }

    fn assumptions(&self) -> Vec<String> {
        vec![
            "sources of nondeterminism the interposer does not own (ASLR, pid, thread ids, inode order of the scratch file system) are left real".into(),
            "the interposed getrandom feeds std's RandomState on this toolchain (probe: distinct hash seeds give distinct HashMap iteration orders, counted as probe.hash_orders_differed_between_executions)".into(),
            "random IRs need only be accepted by the generator; their output is not compiled".into(),
        ]
    }

    fn required_probes(&self) -> Vec<&'static str> {
        vec!["probe.entry_cli", "probe.entry_lib", "probe.hash_orders_differed_between_executions", "probe.files_compared"]
    }
}

pub fn _unused(_: &Tape) {}
