//! Fault enumeration inside a simulation (C06 request direction, C18 response
//! direction): for one sampled (endpoint, value) every 2-split of the body,
//! a stream error at every chunk index of a drawn chunking, a clean end of
//! stream after every byte count, and each single content fault — for the
//! blocking and the async flavour — all judged by the same oracles.

use crate::ctx::Ctx;
use crate::exec::{run_tasks, task, ExecKnobs};
use crate::faults::{CallPlan, Forced, FK};
use crate::glue::{ArgVal, DynVal, GenKnobs};
use crate::glue_gen;
use crate::ir::{ir, RetKind};
use crate::runner::guarded;
use crate::transport::{CatchPanic, Exchange, SimTransport};
use crate::wire::{base_plan, result_of, setup, CallRec, CallResult, Profile, RunSetup, WireEngine};
use std::sync::{Arc, Mutex};

fn one_call(ctx: &Ctx, st: &RunSetup, ep: usize, args: &[ArgVal], ret: &dyn DynVal, plan: CallPlan) -> (CallRec, Vec<Exchange>) {
    // fresh history for this case
    {
        let mut core = st.sh.handler.core.lock().unwrap();
        core.records.clear();
        core.script.clear();
    }
    st.sh.exchanges.lock().unwrap().clear();
    st.sh.handler.script(ep, ret.clone_box());
    let tr = SimTransport {
        sh: st.sh.clone(),
        call: 0,
        plan: Arc::new(Mutex::new(plan)),
        measure: None,
    };
    let mut call = CallRec {
        client_kind: crate::mirror::ClientKind::Generated,
        ep,
        args: args.to_vec(),
        ret: ret.clone_box(),
        result: CallResult::NotRun,
        token_debug: None,
    };
    if !st.is_async {
        let r = guarded(|| glue_gen::call_blocking(&tr, ep, &call.args));
        call.result = result_of(r);
    } else {
        let slot: Mutex<Option<CallResult>> = Mutex::new(None);
        let report = {
            let slot = &slot;
            let tr = &tr;
            let callr = &call;
            let mut tasks = vec![task(
                async move {
                    let r = CatchPanic(Box::pin(glue_gen::call_async(tr, callr.ep, &callr.args))).await;
                    *slot.lock().unwrap() = Some(result_of(r));
                },
                None,
            )];
            run_tasks(
                ctx,
                &mut tasks,
                &ExecKnobs {
                    spurious_polls: false,
                    max_polls: 1_000_000,
                },
            )
        };
        if report.stalled {
            ctx.violation("C04", "liveness", "executor stalled during fault enumeration: a task is Pending with no wake-up and no timer");
        }
        call.result = slot.lock().unwrap().take().unwrap_or(CallResult::NotRun);
    }
    let exchanges = std::mem::take(&mut *st.sh.exchanges.lock().unwrap());
    (call, exchanges)
}

fn judge_case(ctx: &Ctx, st: &RunSetup, call: CallRec, exchanges: Vec<Exchange>, label: &str) {
    ctx.count("enum.cases");
    ctx.log(|| {
        format!(
            "case {} -> {}",
            label,
            match &call.result {
                CallResult::Ok(v) => format!("Ok({})", v.render()),
                CallResult::Err(e) => format!("Err(code={} marker={:?})", e.code, e.marker),
                CallResult::Panic(m) => format!("PANIC {}", m),
                _ => "-".into(),
            }
        )
    });
    crate::oracles::evaluate(ctx, &st.knobs, std::slice::from_ref(&call), &exchanges, &st.sh.handler, st.is_async);
}

pub fn run_enum(e: &WireEngine, ctx: &Ctx) {
    let irx = ir();
    let mut knobs = ctx.with_tape(GenKnobs::draw);
    // keep bodies small: the enumeration is ~3x their length, twice
    knobs.doc_budget = ctx.with_tape(|t| *t.pick(&[2i64, 4, 8, 12]));
    knobs.max_str = ctx.with_tape(|t| *t.pick(&[2u64, 6, 12]));
    let request_side = e.profile == Profile::C06;
    let cands: Vec<usize> = irx
        .eps
        .iter()
        .filter(|m| m.idx < irx.generated)
        .filter(|m| {
            if request_side {
                m.body_arg().map(|b| !irx.is_binary(&b.ty)).unwrap_or(false)
            } else {
                true
            }
        })
        .map(|m| m.idx)
        .collect();
    let ep = cands[ctx.draw(cands.len() as u64) as usize];
    let meta = &irx.eps[ep];
    ctx.sig(&meta.name);
    let args = ctx.with_tape(|t| glue_gen::gen_args(ep, t, &knobs));
    let ret = ctx.with_tape(|t| glue_gen::gen_ret(ep, t, &knobs));
    ctx.log(|| {
        format!(
            "enumerate {}.{} args=[{}] scripted_return={}",
            meta.service,
            meta.name,
            args.iter().map(|a| format!("{}={}", a.name, a.val.render())).collect::<Vec<_>>().join(", "),
            ret.render()
        )
    });
    let smile = meta
        .body_arg()
        .filter(|b| !irx.is_binary(&b.ty))
        .and_then(|b| args.iter().find(|a| a.name == b.name))
        .and_then(|a| glue_gen::val_to_smile((ep, true), &*a.val));
    // a drawn multi-way chunking shared by both flavours
    let cut_seeds: Vec<u64> = (0..ctx.draw(4) + 1).map(|_| ctx.draw(1 << 16)).collect();
    let timing = ctx.chance(1, 2);
    for is_async in [false, true] {
        let st = setup(ctx, is_async, knobs.clone());
        ctx.sig(if is_async { "async" } else { "blocking" });
        let mk_plan = |forced: Option<Forced>| -> CallPlan {
            let mut p = base_plan(ctx, &st.knobs);
            p.alt_smile_body = smile.clone();
            p.max_faults = 4;
            if request_side {
                p.forced_req = forced;
            } else {
                p.forced_resp = forced;
            }
            if timing && is_async {
                let k = crate::body::ChunkKnobs {
                    style: 0,
                    empty_chunks: false,
                    timing: true,
                };
                if request_side {
                    p.chunk_resp = Some(k);
                } else {
                    p.chunk_req = Some(k);
                }
            }
            p
        };
        // probe: the undamaged exchange
        let (call, exs) = one_call(ctx, &st, ep, &args, &*ret, mk_plan(None));
        let len = exs
            .first()
            .map(|x| {
                if request_side {
                    x.sent.body.as_ref().map(|b| b.len()).unwrap_or(0)
                } else {
                    x.resp_wire.as_ref().map(|w| w.body.len()).unwrap_or(0)
                }
            })
            .unwrap_or(0);
        let streaming = exs
            .first()
            .map(|x| if request_side { x.sent.streaming } else { matches!(meta.ret_kind(), RetKind::Binary | RetKind::OptBinary) })
            .unwrap_or(false);
        let probe_ok = matches!(call.result, CallResult::Ok(_));
        judge_case(ctx, &st, call, exs, "probe");
        if !probe_ok {
            // e.g. a header value HTTP cannot carry, or a body above the endpoint's limit
            ctx.count("enum.probe_not_ok");
            continue;
        }
        if len > 600 {
            ctx.count("enum.body_too_long_skipped");
            continue;
        }
        ctx.mark_nontrivial();
        ctx.sig(match len {
            0 => "len0",
            1..=8 => "len1-8",
            9..=64 => "len9-64",
            _ => "len65+",
        });
        // 1. every 2-split (cut at every byte offset, both ends included: empty chunks)
        for k in 0..=len {
            let (call, exs) = one_call(ctx, &st, ep, &args, &*ret, mk_plan(Some(Forced::Cuts(vec![k]))));
            judge_case(ctx, &st, call, exs, &format!("split@{}", k));
            ctx.count("enum.two_split");
        }
        // 2. a stream error at every chunk index of a drawn chunking (and after the last byte)
        let mut cuts: Vec<usize> = cut_seeds.iter().map(|s| (*s as usize) % (len + 1)).collect();
        cuts.sort();
        for j in 0..=cuts.len() + 1 {
            let (call, exs) = one_call(ctx, &st, ep, &args, &*ret, mk_plan(Some(Forced::FailAt(cuts.clone(), j))));
            judge_case(ctx, &st, call, exs, &format!("fail@{} of {:?}", j, cuts));
            ctx.count("enum.stream_error_position");
        }
        // 3. a clean end of stream after every byte count
        for k in 0..len {
            let (call, exs) = one_call(ctx, &st, ep, &args, &*ret, mk_plan(Some(Forced::TruncateAt(k))));
            judge_case(ctx, &st, call, exs, &format!("truncate@{}", k));
            ctx.count("enum.truncate_position");
        }
        // 4. each single content fault once
        let kinds: &[FK] = if request_side {
            &[
                FK::Pretty,
                FK::SmileReencode,
                FK::CtParams,
                FK::LeadingWs,
                FK::TrailingWs,
                FK::TrailingGarbage,
                FK::TrailingSecondDoc,
                FK::CtDrop,
                FK::CtUnregistered,
                FK::CtLabelSwap,
                FK::UnknownField,
                FK::TypeConfusion,
                FK::WrongDocument,
                FK::UnionMismatch,
                FK::UnionReorder,
                FK::NumberOutOfRange,
                FK::MissingField,
                FK::LeafCorrupt,
                FK::Oversize,
                FK::ByteFlip,
            ]
        } else {
            &[
                FK::Pretty,
                FK::LeadingWs,
                FK::TrailingWs,
                FK::TrailingGarbage,
                FK::TrailingSecondDoc,
                FK::CtDrop,
                FK::CtUnregistered,
                FK::CtParams,
                FK::StatusFlip,
                FK::UnknownField,
                FK::TypeConfusion,
                FK::WrongDocument,
                FK::UnionMismatch,
                FK::UnionReorder,
                FK::NumberOutOfRange,
                FK::MissingField,
                FK::LeafCorrupt,
                FK::ByteFlip,
            ]
        };
        if !streaming || !request_side {
            for k in kinds {
                let (call, exs) = one_call(ctx, &st, ep, &args, &*ret, mk_plan(Some(Forced::Kind(*k))));
                judge_case(ctx, &st, call, exs, &format!("kind {}", k.name()));
                ctx.count("enum.single_content_fault");
            }
        }
    }
}
