//! Fault enumeration for C06 / C18 (filled in below).
use crate::ctx::Ctx;
use crate::wire::WireEngine;

pub fn run_enum(_e: &WireEngine, _ctx: &Ctx) {}
