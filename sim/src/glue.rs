//! Hand-written half of the glue between dynamic harness values and the
//! statically typed generated code (the other half is glue_gen.rs).

pub use crate::body::{SimAsyncWriter, SimBody, SimWriter};
use crate::body::{marker_of, BodyPlan, ChunkKnobs, WritePlan};
use crate::ctx::Ctx;
use crate::ir::{self, ir, DocKnobs};
pub use crate::tape::Tape;
pub use crate::transport::SimTransport;
use bytes::Bytes;
use conjure_error::Error;
use conjure_object::{BearerToken, DateTime, DoubleKey, ResourceIdentifier, SafeLong, Utc, Uuid};
use futures_core::Stream;
use std::any::Any;
use std::collections::{BTreeMap, BTreeSet, VecDeque};
use std::fmt::Debug;
use std::future::poll_fn;
use std::io::Write;
use std::pin::Pin;
use std::sync::{Arc, Mutex};

// ------------------------------------------------------------------ values --

pub trait SimEq {
    fn same(&self, other: &Self) -> bool;
    /// Do these percent-decoded wire texts (one per supplied value) spell this value?
    /// Judged with the harness's own parsers, never the code under test's PLAIN codec.
    fn plain_ok(&self, decoded: &[String]) -> bool;
    fn json_value(&self) -> serde_json::Value;
    /// number of values this argument supplies as a path/query/header parameter
    fn plain_count(&self) -> usize {
        1
    }
}

pub fn json_plain_ok<T: serde::Serialize>(v: &T, decoded: &[String]) -> bool {
    match serde_json::to_value(v) {
        Ok(serde_json::Value::String(s)) => decoded.len() == 1 && decoded[0] == s,
        Ok(serde_json::Value::Number(n)) => {
            decoded.len() == 1
                && match (n.as_i64(), decoded[0].parse::<i64>()) {
                    (Some(a), Ok(b)) => a == b,
                    (None, _) => n.as_f64().map(|f| f64_text_ok(f, &decoded[0])).unwrap_or(false),
                    _ => false,
                }
        }
        Ok(serde_json::Value::Bool(b)) => decoded.len() == 1 && decoded[0] == if b { "true" } else { "false" },
        _ => false,
    }
}

fn to_json<T: serde::Serialize>(v: &T) -> serde_json::Value {
    serde_json::to_value(v).unwrap_or(serde_json::Value::Null)
}

pub trait DynVal: Any + Debug + Send + Sync {
    fn eq_dyn(&self, other: &dyn DynVal) -> bool;
    fn as_any(&self) -> &dyn Any;
    fn into_any(self: Box<Self>) -> Box<dyn Any + Send + Sync>;
    fn clone_box(&self) -> Box<dyn DynVal>;
    fn render(&self) -> String;
    fn plain_ok(&self, decoded: &[String]) -> bool;
    fn plain_count(&self) -> usize;
    fn json_value(&self) -> serde_json::Value;
}

impl<T> DynVal for T
where
    T: SimEq + Clone + Debug + Send + Sync + 'static,
{
    fn eq_dyn(&self, other: &dyn DynVal) -> bool {
        match other.as_any().downcast_ref::<T>() {
            Some(o) => self.same(o),
            None => false,
        }
    }
    fn as_any(&self) -> &dyn Any {
        self
    }
    fn into_any(self: Box<Self>) -> Box<dyn Any + Send + Sync> {
        self
    }
    fn clone_box(&self) -> Box<dyn DynVal> {
        Box::new(self.clone())
    }
    fn plain_ok(&self, decoded: &[String]) -> bool {
        SimEq::plain_ok(self, decoded)
    }
    fn plain_count(&self) -> usize {
        SimEq::plain_count(self)
    }
    fn json_value(&self) -> serde_json::Value {
        SimEq::json_value(self)
    }
    fn render(&self) -> String {
        let mut s = format!("{:?}", self);
        if s.len() > 160 {
            let mut cut = 160;
            while !s.is_char_boundary(cut) {
                cut -= 1;
            }
            s.truncate(cut);
            s.push('…');
        }
        s
    }
}

pub fn bx<T: DynVal>(v: T) -> Box<dyn DynVal> {
    Box::new(v)
}

macro_rules! eq_via_partial_eq {
    ($($t:ty),* $(,)?) => { $(impl SimEq for $t {
        fn same(&self, o: &Self) -> bool { self == o }
        fn plain_ok(&self, decoded: &[String]) -> bool { json_plain_ok(self, decoded) }
        fn json_value(&self) -> serde_json::Value { to_json(self) }
    })* };
}
eq_via_partial_eq!(String, i32, bool, SafeLong, Uuid, ResourceIdentifier, BearerToken);

impl SimEq for Bytes {
    fn same(&self, o: &Self) -> bool {
        self == o
    }
    // PLAIN binary: padded standard-alphabet Base64 (the harness's own encoder)
    fn plain_ok(&self, decoded: &[String]) -> bool {
        decoded.len() == 1 && decoded[0] == ir::b64(self)
    }
    fn json_value(&self) -> serde_json::Value {
        serde_json::Value::String(ir::b64(self))
    }
}

impl SimEq for () {
    fn same(&self, _: &Self) -> bool {
        true
    }
    fn plain_ok(&self, _: &[String]) -> bool {
        false
    }
    fn json_value(&self) -> serde_json::Value {
        serde_json::Value::Null
    }
}

fn f64_text_ok(v: f64, s: &str) -> bool {
    if v.is_nan() {
        s == "NaN"
    } else if v == f64::INFINITY {
        s == "Infinity"
    } else if v == f64::NEG_INFINITY {
        s == "-Infinity"
    } else {
        // any decimal spelling that denotes exactly this double
        !s.is_empty()
            && s.bytes().all(|b| b.is_ascii_digit() || b"+-.eE".contains(&b))
            && s.parse::<f64>().map(|p| p == v && p.is_sign_negative() == v.is_sign_negative()).unwrap_or(false)
    }
}

impl SimEq for f64 {
    fn same(&self, o: &Self) -> bool {
        // the types' own equality: NaN equals NaN, -0 equals +0
        (self.is_nan() && o.is_nan()) || self == o
    }
    fn plain_ok(&self, decoded: &[String]) -> bool {
        decoded.len() == 1 && f64_text_ok(*self, &decoded[0])
    }
    fn json_value(&self) -> serde_json::Value {
        crate::ir::f64_json(*self)
    }
}
impl SimEq for DoubleKey {
    fn same(&self, o: &Self) -> bool {
        self == o
    }
    fn plain_ok(&self, decoded: &[String]) -> bool {
        decoded.len() == 1 && f64_text_ok(self.0, &decoded[0])
    }
    fn json_value(&self) -> serde_json::Value {
        crate::ir::f64_json(self.0)
    }
}
impl SimEq for DateTime<Utc> {
    fn same(&self, o: &Self) -> bool {
        self == o
    }
    fn plain_ok(&self, decoded: &[String]) -> bool {
        // chrono's own RFC 3339 parser is the judge here
        decoded.len() == 1 && decoded[0].parse::<DateTime<Utc>>().map(|d| d == *self).unwrap_or(false)
    }
    fn json_value(&self) -> serde_json::Value {
        to_json(self)
    }
}
impl<T: SimEq> SimEq for Option<T> {
    fn same(&self, o: &Self) -> bool {
        match (self, o) {
            (None, None) => true,
            (Some(a), Some(b)) => a.same(b),
            _ => false,
        }
    }
    fn plain_ok(&self, decoded: &[String]) -> bool {
        match self {
            None => decoded.is_empty(),
            Some(v) => v.plain_ok(decoded),
        }
    }
    fn plain_count(&self) -> usize {
        match self {
            None => 0,
            Some(v) => v.plain_count(),
        }
    }
    fn json_value(&self) -> serde_json::Value {
        match self {
            None => serde_json::Value::Null,
            Some(v) => v.json_value(),
        }
    }
}
impl<T: SimEq> SimEq for Vec<T> {
    fn same(&self, o: &Self) -> bool {
        self.len() == o.len() && self.iter().zip(o).all(|(a, b)| a.same(b))
    }
    fn plain_ok(&self, decoded: &[String]) -> bool {
        self.len() == decoded.len() && self.iter().zip(decoded).all(|(a, d)| a.plain_ok(std::slice::from_ref(d)))
    }
    fn plain_count(&self) -> usize {
        self.len()
    }
    fn json_value(&self) -> serde_json::Value {
        serde_json::Value::Array(self.iter().map(|v| v.json_value()).collect())
    }
}
impl<T: SimEq> SimEq for BTreeSet<T> {
    fn same(&self, o: &Self) -> bool {
        self.len() == o.len() && self.iter().zip(o).all(|(a, b)| a.same(b))
    }
    fn plain_ok(&self, decoded: &[String]) -> bool {
        self.len() == decoded.len() && self.iter().zip(decoded).all(|(a, d)| a.plain_ok(std::slice::from_ref(d)))
    }
    fn plain_count(&self) -> usize {
        self.len()
    }
    fn json_value(&self) -> serde_json::Value {
        serde_json::Value::Array(self.iter().map(|v| v.json_value()).collect())
    }
}
impl<K: SimEq, V: SimEq> SimEq for BTreeMap<K, V> {
    fn same(&self, o: &Self) -> bool {
        self.len() == o.len()
            && self
                .iter()
                .zip(o)
                .all(|((ka, va), (kb, vb))| ka.same(kb) && va.same(vb))
    }
    fn plain_ok(&self, _: &[String]) -> bool {
        false
    }
    fn json_value(&self) -> serde_json::Value {
        serde_json::Value::Null
    }
}

pub struct ArgVal {
    pub name: &'static str,
    pub val: Box<dyn DynVal>,
}

impl ArgVal {
    pub fn new(name: &'static str, val: Box<dyn DynVal>) -> ArgVal {
        ArgVal { name, val }
    }
    pub fn get<T: 'static>(&self) -> &T {
        self.val
            .as_any()
            .downcast_ref::<T>()
            .unwrap_or_else(|| panic!("glue type mismatch for arg {}", self.name))
    }
}

impl Clone for ArgVal {
    fn clone(&self) -> Self {
        ArgVal {
            name: self.name,
            val: self.val.clone_box(),
        }
    }
}

/// A binary body as the harness sees it: the bytes that arrived and the
/// stream marker that ended it, if any.
#[derive(Clone, Debug, PartialEq, Eq, Default)]
pub struct BinVal {
    pub bytes: Vec<u8>,
    pub err: Option<u32>,
    /// an error that is not one of the harness's stream markers
    pub foreign_err: bool,
}

impl SimEq for BinVal {
    fn same(&self, o: &Self) -> bool {
        self == o
    }
    fn plain_ok(&self, _: &[String]) -> bool {
        false
    }
    fn json_value(&self) -> serde_json::Value {
        serde_json::Value::Null
    }
}

impl BinVal {
    pub fn of(bytes: Vec<u8>) -> BinVal {
        BinVal {
            bytes,
            err: None,
            foreign_err: false,
        }
    }

    pub fn drain(body: SimBody) -> BinVal {
        let mut v = BinVal::default();
        for item in body {
            match item {
                Ok(b) => v.bytes.extend_from_slice(&b),
                Err(e) => {
                    v.err = marker_of(&e);
                    v.foreign_err = v.err.is_none();
                    break;
                }
            }
        }
        v
    }

    pub async fn drain_async(body: SimBody) -> BinVal {
        let mut body = body;
        let mut v = BinVal::default();
        loop {
            let item = poll_fn(|cx| Pin::new(&mut body).poll_next(cx)).await;
            match item {
                Some(Ok(b)) => v.bytes.extend_from_slice(&b),
                Some(Err(e)) => {
                    v.err = marker_of(&e);
                    v.foreign_err = v.err.is_none();
                    break;
                }
                None => break,
            }
        }
        v
    }
}

// -------------------------------------------------------------- generation --

#[derive(Clone, Copy, Debug, PartialEq, Eq)]
pub enum Kind {
    Path,
    Query,
    Header,
    Body,
    Return,
    Auth,
}

/// Per-run generation knobs (drawn once per run: swarm style).
#[derive(Clone, Debug)]
pub struct GenKnobs {
    pub alpha: String,
    pub digits: u32,
    pub hex: u32,
    pub canaries: bool,
    pub wild_strings: bool,
    pub max_str: u64,
    pub doc_budget: i64,
    pub header_nonascii: bool,
    /// string bodies of 50-80 kB now and then (beyond what any small default limit would allow)
    pub big_body: bool,
}

pub struct GenCx<'a> {
    pub k: &'a GenKnobs,
    pub kind: Kind,
    pub safe: bool,
}

impl GenKnobs {
    pub fn draw(t: &mut Tape) -> GenKnobs {
        let mut alpha = String::from("Qz");
        for _ in 0..8 {
            alpha.push(*t.pick(b"abcdefghijklmnopqrstuvwxyz") as char);
        }
        GenKnobs {
            alpha,
            digits: 100_000_000 + t.draw(99_999_999) as u32,
            hex: 0x1000_0000 + t.draw(0xefff_ffff) as u32,
            canaries: true,
            wild_strings: t.chance(2, 3),
            max_str: *t.pick(&[4u64, 16, 16, 64, 300, 300, 2500]),
            doc_budget: *t.pick(&[4i64, 12, 12, 40, 40, 150]),
            header_nonascii: t.chance(1, 4),
            big_body: false,
        }
    }

    /// The same knobs with every canary replaced by a different one of the same shape: two runs
    /// that differ only in this must agree on everything that is safe to log.
    pub fn twinned(&self) -> GenKnobs {
        let mut k = self.clone();
        k.alpha = self
            .alpha
            .chars()
            .enumerate()
            .map(|(i, c)| if i < 2 { c } else { (((c as u8 - b'a' + 7) % 26) + b'a') as char })
            .collect();
        k.digits = 100_000_000 + (self.digits - 100_000_000 + 12_345_679) % 99_999_999;
        k.hex = 0x1000_0000 + (self.hex - 0x1000_0000 + 0x0123_4567) % 0xefff_ffff;
        k
    }

    pub fn at(&self, kind: Kind, safe: bool) -> GenCx<'_> {
        GenCx {
            k: self,
            kind,
            safe,
        }
    }
}

impl GenCx<'_> {
    /// canary for this position: only positions that are not declared safe
    fn tainted(&self) -> bool {
        self.k.canaries && !self.safe && !matches!(self.kind, Kind::Return)
    }
}

pub trait Gen: Sized {
    fn gen(t: &mut Tape, c: &GenCx<'_>) -> Self;
}

impl Gen for () {
    fn gen(_: &mut Tape, _: &GenCx<'_>) {}
}

impl Gen for String {
    fn gen(t: &mut Tape, c: &GenCx<'_>) -> String {
        let mut s = match c.kind {
            Kind::Header => {
                if c.k.header_nonascii && t.chance(1, 6) {
                    // text HTTP cannot carry: must be refused, never altered
                    ir::gen_string(t, true, c.k.max_str)
                } else {
                    let n = t.size(c.k.max_str);
                    (0..n)
                        .map(|_| {
                            if c.k.wild_strings {
                                (0x20 + t.draw(0x5f) as u8) as char
                            } else {
                                *t.pick(b"abcXYZ019 -_") as char
                            }
                        })
                        .collect()
                }
            }
            Kind::Body if c.k.big_body && t.chance(1, 3) => "y".repeat(52_000 + t.draw(30_000) as usize),
            Kind::Path | Kind::Query if t.chance(1, 12) => {
                // values with a meaning of their own in a URI
                t.pick(&[".", "..", "...", "%2E", "%2e%2E", "%2F", "%", "%25", "%zz", "+", " ", "a+b c", "a/b", "/", "//", "?", "#", "a=b&c=d", "&", "=", ";", "a;b=c", "\\", "%00", "\u{0}"])
                    .to_string()
            }
            _ => ir::gen_string(t, c.k.wild_strings, c.k.max_str),
        };
        if c.tainted() && t.chance(7, 8) {
            let at = t.draw(s.chars().count() as u64 + 1) as usize;
            let byte = s.char_indices().nth(at).map(|(i, _)| i).unwrap_or(s.len());
            s.insert_str(byte, &c.k.alpha);
        }
        s
    }
}

impl Gen for i32 {
    fn gen(t: &mut Tape, c: &GenCx<'_>) -> i32 {
        if c.tainted() && t.chance(3, 4) {
            c.k.digits as i32
        } else if c.safe {
            t.draw(1000) as i32 - 500
        } else {
            ir::gen_i32(t)
        }
    }
}

impl Gen for SafeLong {
    fn gen(t: &mut Tape, c: &GenCx<'_>) -> SafeLong {
        let v = if c.tainted() && t.chance(3, 4) {
            c.k.digits as i64
        } else {
            ir::gen_safelong(t)
        };
        SafeLong::new(v).unwrap_or_else(|e| panic!("{}: SafeLong::new({}) failed: {}", crate::runner::VALID_VALUE_REFUSED, v, e))
    }
}

impl Gen for f64 {
    fn gen(t: &mut Tape, c: &GenCx<'_>) -> f64 {
        if c.tainted() && t.chance(1, 2) {
            c.k.digits as f64
        } else {
            ir::gen_f64(t)
        }
    }
}

impl Gen for DoubleKey {
    fn gen(t: &mut Tape, c: &GenCx<'_>) -> DoubleKey {
        DoubleKey(<f64 as Gen>::gen(t, c))
    }
}

impl Gen for bool {
    fn gen(t: &mut Tape, _: &GenCx<'_>) -> bool {
        t.chance(1, 2)
    }
}

impl Gen for Uuid {
    fn gen(t: &mut Tape, c: &GenCx<'_>) -> Uuid {
        let mut v = ((t.bits() as u128) << 64) | t.bits() as u128;
        if c.tainted() {
            v = (v & !(0xffff_ffffu128 << 96)) | ((c.k.hex as u128) << 96);
        }
        Uuid::from_u128(v)
    }
}

impl Gen for ResourceIdentifier {
    fn gen(t: &mut Tape, c: &GenCx<'_>) -> ResourceIdentifier {
        let canary = if c.tainted() { Some(c.k.alpha.as_str()) } else { None };
        let s = ir::gen_rid_string(t, canary);
        ResourceIdentifier::new(&s).unwrap_or_else(|e| panic!("{}: ResourceIdentifier::new({:?}) failed: {}", crate::runner::VALID_VALUE_REFUSED, s, e))
    }
}

impl Gen for BearerToken {
    fn gen(t: &mut Tape, c: &GenCx<'_>) -> BearerToken {
        let canary = if c.k.canaries { Some(c.k.alpha.as_str()) } else { None };
        let s = ir::gen_token_string(t, canary);
        BearerToken::new(&s).unwrap_or_else(|e| panic!("{}: BearerToken::new({:?}) failed: {}", crate::runner::VALID_VALUE_REFUSED, s, e))
    }
}

impl Gen for DateTime<Utc> {
    fn gen(t: &mut Tape, _: &GenCx<'_>) -> DateTime<Utc> {
        let s = ir::gen_datetime_string(t);
        s.parse().unwrap_or_else(|e| panic!("generated datetime {:?} rejected: {}", s, e))
    }
}

impl<T: Gen> Gen for Option<T> {
    fn gen(t: &mut Tape, c: &GenCx<'_>) -> Option<T> {
        if t.chance(2, 3) {
            Some(T::gen(t, c))
        } else {
            None
        }
    }
}

impl<T: Gen> Gen for Vec<T> {
    fn gen(t: &mut Tape, c: &GenCx<'_>) -> Vec<T> {
        let n = t.size(6);
        (0..n).map(|_| T::gen(t, c)).collect()
    }
}

impl<T: Gen + Ord> Gen for BTreeSet<T> {
    fn gen(t: &mut Tape, c: &GenCx<'_>) -> BTreeSet<T> {
        let n = t.size(6);
        (0..n).map(|_| T::gen(t, c)).collect()
    }
}

impl<K: Gen + Ord, V: Gen> Gen for BTreeMap<K, V> {
    fn gen(t: &mut Tape, c: &GenCx<'_>) -> BTreeMap<K, V> {
        let n = t.size(5);
        (0..n).map(|_| (K::gen(t, c), V::gen(t, c))).collect()
    }
}

impl Gen for Bytes {
    fn gen(t: &mut Tape, _: &GenCx<'_>) -> Bytes {
        let max = *t.pick(&[4u64, 24, 24, 200, 1400]);
        Bytes::from(ir::gen_bytes(t, max))
    }
}

impl Gen for BinVal {
    fn gen(t: &mut Tape, _: &GenCx<'_>) -> BinVal {
        // heavy-tailed: streaming bodies that span many writes / chunks / buffer sizes
        let max = *t.pick(&[8u64, 64, 64, 600, 600, 9000, 70_000]);
        BinVal::of(ir::gen_bytes(t, max))
    }
}

/// Generated types are constructed from an IR-driven JSON document through
/// the real client deserializer.
pub fn gen_via_doc<T: serde::de::DeserializeOwned>(name: &str, t: &mut Tape, c: &GenCx<'_>) -> T {
    let mut k = DocKnobs {
        budget: c.k.doc_budget,
        max_depth: 6,
        wild_strings: c.k.wild_strings,
        unknown_enum: false,
        explicit_null: t.chance(1, 4),
    };
    let doc = ir().gen_doc(&ir::Ty::Ref(name.to_string()), t, &mut k, 0);
    let text = doc.to_string();
    match conjure_serde::json::client_from_str::<T>(&text) {
        Ok(v) => v,
        Err(e) => panic!("{}: the client deserializer refused a valid document of {}: {} :: {}", crate::runner::VALID_VALUE_REFUSED, name, e, text),
    }
}

#[macro_export]
macro_rules! ir_types {
    ($($name:ident),* $(,)?) => {
        $(
            impl $crate::glue::Gen for $crate::sim_ir::$name {
                fn gen(t: &mut $crate::tape::Tape, c: &$crate::glue::GenCx<'_>) -> Self {
                    $crate::glue::gen_via_doc::<Self>(stringify!($name), t, c)
                }
            }
            impl $crate::glue::SimEq for $crate::sim_ir::$name {
                fn same(&self, o: &Self) -> bool { self == o }
                fn plain_ok(&self, decoded: &[String]) -> bool {
                    // aliases of optionals / collections supply 0..n values
                    match serde_json::to_value(self) {
                        Ok(serde_json::Value::Null) => decoded.is_empty(),
                        Ok(serde_json::Value::Array(a)) => a.len() == decoded.len()
                            && a.iter().zip(decoded).all(|(v, d)| $crate::glue::json_plain_ok(v, std::slice::from_ref(d))),
                        Ok(v) => $crate::glue::json_plain_ok(&v, decoded),
                        Err(_) => false,
                    }
                }
                fn plain_count(&self) -> usize {
                    match serde_json::to_value(self) {
                        Ok(serde_json::Value::Null) => 0,
                        Ok(serde_json::Value::Array(a)) => a.len(),
                        _ => 1,
                    }
                }
                fn json_value(&self) -> serde_json::Value {
                    serde_json::to_value(self).unwrap_or(serde_json::Value::Null)
                }
            }
        )*
    };
}

// ------------------------------------------------------- streaming bodies --

/// Request-side streaming body handed to the generated client.
pub struct SimReqBody {
    ctx: Ctx,
    bytes: Vec<u8>,
    pieces: Vec<usize>,
    pub writes: Arc<Mutex<(u32, u32)>>, // (write_body calls, resets)
    /// Like a body streamed from a file or a reader: what has been handed to a writer is gone
    /// until `reset()` rewinds.
    cursor: usize,
    piece: usize,
}

impl SimReqBody {
    pub fn new(tr: &SimTransport, v: &BinVal) -> SimReqBody {
        let ctx = tr.ctx().clone();
        // how the user's body hands its bytes to the writer
        let pieces = ctx.with_tape(|t| {
            let mut p = Vec::new();
            let mut left = v.bytes.len();
            while left > 0 {
                let n = 1 + t.draw(left.min(97) as u64) as usize;
                p.push(n);
                left -= n;
                if !t.chance(1, 2) {
                    p.push(left);
                    break;
                }
            }
            p
        });
        SimReqBody {
            ctx,
            bytes: v.bytes.clone(),
            pieces,
            writes: Arc::new(Mutex::new((0, 0))),
            cursor: 0,
            piece: 0,
        }
    }

    /// Takes the next piece out of the source (it is consumed whether or not the write succeeds).
    fn take_piece(&mut self) -> Option<std::ops::Range<usize>> {
        if self.cursor >= self.bytes.len() {
            return None;
        }
        let want = self.pieces.get(self.piece).copied().unwrap_or(usize::MAX).max(1);
        self.piece += 1;
        let n = want.min(self.bytes.len() - self.cursor);
        let r = self.cursor..self.cursor + n;
        self.cursor += n;
        Some(r)
    }
}

impl conjure_http::client::WriteBody<SimWriter> for SimReqBody {
    fn write_body(&mut self, w: &mut SimWriter) -> Result<(), Error> {
        self.writes.lock().unwrap().0 += 1;
        while let Some(r) = self.take_piece() {
            w.write_all(&self.bytes[r]).map_err(Error::internal_safe)?;
        }
        w.flush().map_err(Error::internal_safe)?;
        Ok(())
    }

    fn reset(&mut self) -> bool {
        self.writes.lock().unwrap().1 += 1;
        self.ctx.count("body.request_reset");
        self.cursor = 0;
        self.piece = 0;
        true
    }
}

impl conjure_http::client::AsyncWriteBody<SimAsyncWriter> for SimReqBody {
    async fn write_body(self: Pin<&mut Self>, mut w: Pin<&mut SimAsyncWriter>) -> Result<(), Error> {
        let this = self.get_mut();
        this.writes.lock().unwrap().0 += 1;
        while let Some(r) = this.take_piece() {
            let bytes = this.bytes[r].to_vec();
            let mut piece = &bytes[..];
            while !piece.is_empty() {
                let k = poll_fn(|cx| w.as_mut().get_mut().poll_write(cx, piece))
                    .await
                    .map_err(Error::internal_safe)?;
                piece = &piece[k..];
            }
        }
        Ok(())
    }

    async fn reset(self: Pin<&mut Self>) -> bool {
        let this = self.get_mut();
        this.writes.lock().unwrap().1 += 1;
        this.ctx.count("body.request_reset");
        this.cursor = 0;
        this.piece = 0;
        true
    }
}

/// Response-side streaming body returned by the handler.
pub struct SimRespBody {
    pub bytes: Vec<u8>,
}

impl From<BinVal> for SimRespBody {
    fn from(v: BinVal) -> Self {
        SimRespBody { bytes: v.bytes }
    }
}

impl conjure_http::server::WriteBody<SimWriter> for SimRespBody {
    fn write_body(self: Box<Self>, w: &mut SimWriter) -> Result<(), Error> {
        w.write_all(&self.bytes).map_err(Error::internal_safe)
    }
}

impl conjure_http::server::AsyncWriteBody<SimAsyncWriter> for SimRespBody {
    async fn write_body(self, mut w: Pin<&mut SimAsyncWriter>) -> Result<(), Error> {
        let mut piece = &self.bytes[..];
        while !piece.is_empty() {
            let k = poll_fn(|cx| w.as_mut().get_mut().poll_write(cx, piece))
                .await
                .map_err(Error::internal_safe)?;
            piece = &piece[k..];
        }
        Ok(())
    }
}

// ----------------------------------------------------------------- handler --

pub struct Record {
    pub ep: usize,
    pub args: Vec<(&'static str, Box<dyn DynVal>)>,
    pub ret: Option<Box<dyn DynVal>>,
    pub ctx_probe: Option<String>,
    /// the handler was scripted to refuse with a service error of its own
    pub refused: bool,
}

#[derive(Default)]
pub struct HandlerCore {
    /// scripted return values, per endpoint, FIFO
    pub script: BTreeMap<usize, VecDeque<Box<dyn DynVal>>>,
    /// endpoints whose next invocation refuses with an error that carries the given text as an
    /// *unsafe* parameter (what a handler does that reports a non-safe argument back)
    pub refuse: BTreeMap<usize, String>,
    pub records: Vec<Record>,
}

#[derive(Clone)]
pub struct Handler {
    pub ctx: Ctx,
    pub core: Arc<Mutex<HandlerCore>>,
}

impl Handler {
    pub fn new(ctx: &Ctx) -> Handler {
        Handler {
            ctx: ctx.clone(),
            core: Arc::new(Mutex::new(HandlerCore::default())),
        }
    }

    pub fn script(&self, ep: usize, ret: Box<dyn DynVal>) {
        self.core
            .lock()
            .unwrap()
            .script
            .entry(ep)
            .or_default()
            .push_back(ret);
    }

    pub fn refuse_next(&self, ep: usize, unsafe_text: String) {
        self.core.lock().unwrap().refuse.insert(ep, unsafe_text);
    }

    pub fn unscript(&self, ep: usize) {
        if let Some(q) = self.core.lock().unwrap().script.get_mut(&ep) {
            q.pop_back();
        }
    }

    pub fn invocations(&self) -> usize {
        self.core.lock().unwrap().records.len()
    }

    pub fn enter(
        &self,
        ep: usize,
        args: Vec<(&'static str, Box<dyn DynVal>)>,
        ctx_probe: Option<String>,
    ) -> Result<Box<dyn DynVal>, Error> {
        crate::ctx::seam();
        self.ctx.mark(0x2000 + ep as u64);
        let mut core = self.core.lock().unwrap();
        let ret = core.script.get_mut(&ep).and_then(|q| q.pop_front());
        let meta = &ir().eps[ep];
        self.ctx.log(|| {
            format!(
                "handler {}.{} args=[{}]",
                meta.service,
                meta.name,
                args.iter()
                    .map(|(n, v)| format!("{}={}", n, v.render()))
                    .collect::<Vec<_>>()
                    .join(", ")
            )
        });
        self.ctx.count("probe.handler_invoked");
        let refuse = core.refuse.remove(&ep);
        core.records.push(Record {
            ep,
            args,
            ret: ret.as_ref().map(|r| r.clone_box()),
            ctx_probe,
            refused: refuse.is_some(),
        });
        if let Some(text) = refuse {
            self.ctx.count("probe.handler_refused_with_unsafe_param");
            return Err(Error::service_safe("refused by the handler", conjure_error::InvalidArgument::new())
                .with_unsafe_param("rejectedValue", text)
                .with_safe_param("reason", "scripted"));
        }
        match ret {
            Some(r) => Ok(r),
            None => Err(Error::internal_safe("simulation handler has no scripted return value")),
        }
    }
}

pub fn take_ret<T: 'static>(r: Box<dyn DynVal>) -> Result<T, Error> {
    match r.into_any().downcast::<T>() {
        Ok(v) => Ok(*v),
        Err(_) => panic!("glue return type mismatch"),
    }
}

pub fn ctx_probe(c: &conjure_http::server::RequestContext<'_>) -> String {
    format!("{}", c.request_uri())
}

pub fn default_chunking() -> (ChunkKnobs, BodyPlan, WritePlan) {
    (ChunkKnobs::WHOLE, BodyPlan::default(), WritePlan::default())
}
