//! Seeded search driver: runs an engine over many run indices on all cores,
//! collects counters / signatures / violations, minimises and persists replay
//! files, matches known findings, proves determinism, writes evidence.

use crate::ctx::Ctx;
use crate::tape::{mix, Fnv, Tape};
use serde_json::{json, Value};
use std::collections::{BTreeMap, BTreeSet, HashSet};
use std::panic::{catch_unwind, AssertUnwindSafe};
use std::sync::Mutex;
use std::time::Instant;

pub trait Engine: Sync {
    /// stable engine name, part of the per-run seed derivation
    fn name(&self) -> &'static str;
    /// One simulated run; every decision comes from `ctx`'s tape.
    fn run(&self, ctx: &Ctx, variant: u64);
    /// What ran real and what was a stub.
    fn components(&self) -> Value;
    /// the property this engine's check decides (violations the harness cannot attribute to a
    /// particular oracle - a valid value refused while it was being constructed - are filed here)
    fn property(&self) -> &'static str;
    fn rule(&self) -> String;
    fn assumptions(&self) -> Vec<String>;
    /// probes that must be non-zero in the thorough tier
    fn required_probes(&self) -> Vec<&'static str> {
        vec![]
    }
    /// fraction of runs (out of 16) executed with faults disabled
    fn variants(&self) -> u64 {
        1
    }
}

#[derive(Clone)]
pub struct Opts {
    pub property: &'static str,
    /// further properties whose violations are *not* reported by this check
    pub seed: u64,
    pub runs: u64,
    pub workers: usize,
    pub tier: String,
    pub max_wall_s: f64,
    pub level: &'static str,
    pub det_runs: u64,
    pub evidence_path: String,
    pub extra: Value,
}

pub struct Found {
    pub run: u64,
    pub variant: u64,
    pub property: &'static str,
    pub kind: String,
    pub detail: String,
    pub tape: Vec<u64>,
}

pub struct RunOut {
    pub digest: u64,
    pub sig: u64,
    pub nontrivial: bool,
    pub stats: BTreeMap<&'static str, u64>,
    pub violations: Vec<(&'static str, String, String)>,
    pub tape: Vec<u64>,
    pub log: Vec<String>,
    pub sim_time: u64,
}

thread_local! {
    pub static LAST_PANIC: std::cell::RefCell<Option<String>> = const { std::cell::RefCell::new(None) };
    pub static QUIET_PANIC: std::cell::Cell<bool> = const { std::cell::Cell::new(false) };
}

pub fn install_panic_hook() {
    let default = std::panic::take_hook();
    std::panic::set_hook(Box::new(move |info| {
        let quiet = QUIET_PANIC.with(|q| q.get());
        if quiet {
            let msg = if let Some(s) = info.payload().downcast_ref::<&str>() {
                s.to_string()
            } else if let Some(s) = info.payload().downcast_ref::<String>() {
                s.clone()
            } else {
                "<non-string panic>".to_string()
            };
            let loc = info
                .location()
                .map(|l| format!("{}:{}", l.file(), l.line()))
                .unwrap_or_default();
            LAST_PANIC.with(|p| *p.borrow_mut() = Some(format!("{} @ {}", msg, loc)));
        } else {
            default(info);
        }
    }));
}

/// Runs code under test, converting a panic into `Err(message @ location)`.
pub fn guarded<R>(f: impl FnOnce() -> R) -> Result<R, String> {
    let prev = QUIET_PANIC.with(|q| q.replace(true));
    let r = catch_unwind(AssertUnwindSafe(f));
    QUIET_PANIC.with(|q| q.set(prev));
    match r {
        Ok(v) => Ok(v),
        Err(_) => Err(LAST_PANIC
            .with(|p| p.borrow_mut().take())
            .unwrap_or_else(|| "<panic>".into())),
    }
}

/// Runs `f` to completion on a new thread (2 MiB stack: small enough for glibc to recycle the stacks of finished threads).
pub fn on_fresh_thread<R: Send>(f: impl FnOnce() -> R + Send) -> R {
    std::thread::scope(|s| {
        std::thread::Builder::new()
            .stack_size(2 << 20)
            .spawn_scoped(s, f)
            .expect("spawn")
            .join()
            .unwrap_or_else(|p| std::panic::resume_unwind(p))
    })
}

/// Prefix of the panic message used when the code under test refuses a value that is valid by
/// construction (see `exec_one`).
pub const VALID_VALUE_REFUSED: &str = "VALID-VALUE-REFUSED";

pub fn exec_one(engine: &dyn Engine, tape: Tape, variant: u64, log: bool) -> RunOut {
    let ctx = Ctx::new(tape, log);
    // Every run gets a thread of its own: whatever the code under test keeps per thread
    // (thread-locals, caches) starts empty, so a run is a function of its tape alone and not of the
    // runs a worker happened to execute before it. History on one thread is built inside a run.
    let r = on_fresh_thread(|| guarded(|| engine.run(&ctx, variant)));
    if let Err(msg) = r {
        if msg.starts_with(VALID_VALUE_REFUSED) {
            // the harness builds its values through the public constructors and the client
            // deserializer; one of them refused a value that is valid by construction
            ctx.violation(engine.property(), "valid_value_refused_while_constructing_it", msg);
        } else {
            // a panic that escaped the engine's own guards is a harness error
            ctx.violation("HARNESS", "harness_panic", msg);
        }
    }
    let mut g = ctx.lock();
    let violations = std::mem::take(&mut g.violations)
        .into_iter()
        .map(|v| (v.property, v.kind, v.detail))
        .collect();
    RunOut {
        digest: g.digest.0,
        sig: g.sig.0,
        nontrivial: g.nontrivial,
        stats: std::mem::take(&mut g.stats),
        violations,
        tape: std::mem::take(&mut g.tape.rec),
        log: std::mem::take(&mut g.log),
        sim_time: g.sched.now,
    }
}

pub fn run_seed(seed: u64, engine: &dyn Engine, run: u64) -> u64 {
    mix(seed, crate::tape::fnv_str(engine.name()), run)
}

pub struct Batch {
    pub runs_done: u64,
    pub stats: BTreeMap<&'static str, u64>,
    pub sigs: HashSet<u64>,
    pub nontrivial_sigs: HashSet<u64>,
    pub found: Vec<Found>,
    pub digests: Vec<(u64, u64)>,
    pub sim_time: u64,
    pub wall_s: f64,
    pub timed_out: bool,
}

/// Interns a key that came back from a shard process.
fn intern(s: &str) -> &'static str {
    static TABLE: Mutex<BTreeMap<String, &'static str>> = Mutex::new(BTreeMap::new());
    let mut t = TABLE.lock().unwrap();
    if let Some(v) = t.get(s) {
        return v;
    }
    let leaked: &'static str = Box::leak(s.to_string().into_boxed_str());
    t.insert(s.to_string(), leaked);
    leaked
}

fn empty_batch() -> Batch {
    Batch {
        runs_done: 0,
        stats: BTreeMap::new(),
        sigs: HashSet::new(),
        nontrivial_sigs: HashSet::new(),
        found: Vec::new(),
        digests: Vec::new(),
        sim_time: 0,
        wall_s: 0.0,
        timed_out: false,
    }
}

/// One shard of a batch, on this thread: the blocks of 64 run indices whose block number is
/// `index` modulo `shards`. Every run executes on a thread of its own (see `exec_one`).
pub fn run_shard(engine: &dyn Engine, seed: u64, start: u64, runs: u64, shards: u64, index: u64, max_wall_s: f64, keep_digests: bool) -> Batch {
    let t0 = Instant::now();
    let end = start + runs;
    let nvar = engine.variants().max(1);
    let mut local = empty_batch();
    let mut block = index;
    'outer: loop {
        let lo = start + block * 64;
        if lo >= end {
            break;
        }
        if t0.elapsed().as_secs_f64() > max_wall_s {
            local.timed_out = true;
            break 'outer;
        }
        for run in lo..(lo + 64).min(end) {
            let variant = run % nvar;
            let out = exec_one(engine, Tape::from_seed(run_seed(seed, engine, run)), variant, false);
            local.runs_done += 1;
            local.sim_time += out.sim_time;
            for (k, v) in &out.stats {
                *local.stats.entry(k).or_insert(0) += v;
            }
            local.sigs.insert(out.sig);
            if out.nontrivial {
                local.nontrivial_sigs.insert(out.sig);
            }
            if keep_digests {
                local.digests.push((run, out.digest));
            }
            if !out.violations.is_empty() && local.found.len() < 200 {
                for (p, k, d) in out.violations {
                    local.found.push(Found {
                        run,
                        variant,
                        property: p,
                        kind: k,
                        detail: d,
                        tape: out.tape.clone(),
                    });
                }
            }
        }
        block += shards;
    }
    local.wall_s = t0.elapsed().as_secs_f64();
    local
}

pub fn batch_to_json(b: &Batch) -> Value {
    json!({
        "runs_done": b.runs_done,
        "stats": b.stats.iter().map(|(k, v)| (k.to_string(), json!(v))).collect::<serde_json::Map<String, Value>>(),
        "sigs": b.sigs.iter().collect::<Vec<_>>(),
        "nontrivial_sigs": b.nontrivial_sigs.iter().collect::<Vec<_>>(),
        "found": b.found.iter().map(|f| json!({"run": f.run, "variant": f.variant, "property": f.property, "kind": f.kind, "detail": f.detail, "tape": f.tape})).collect::<Vec<_>>(),
        "digests": b.digests,
        "sim_time": b.sim_time,
        "timed_out": b.timed_out,
    })
}

fn batch_from_json(j: &Value) -> Option<Batch> {
    let mut b = empty_batch();
    b.runs_done = j["runs_done"].as_u64()?;
    for (k, v) in j["stats"].as_object()? {
        b.stats.insert(intern(k), v.as_u64()?);
    }
    b.sigs = j["sigs"].as_array()?.iter().filter_map(|v| v.as_u64()).collect();
    b.nontrivial_sigs = j["nontrivial_sigs"].as_array()?.iter().filter_map(|v| v.as_u64()).collect();
    for f in j["found"].as_array()? {
        b.found.push(Found {
            run: f["run"].as_u64()?,
            variant: f["variant"].as_u64()?,
            property: intern(f["property"].as_str()?),
            kind: f["kind"].as_str()?.to_string(),
            detail: f["detail"].as_str()?.to_string(),
            tape: f["tape"].as_array()?.iter().filter_map(|v| v.as_u64()).collect(),
        });
    }
    for d in j["digests"].as_array()? {
        b.digests.push((d[0].as_u64()?, d[1].as_u64()?));
    }
    b.sim_time = j["sim_time"].as_u64()?;
    b.timed_out = j["timed_out"].as_bool()?;
    Some(b)
}

/// Runs a batch. The shards are **processes** (one per worker), each executing its runs one
/// after the other, every run on a fresh thread: per-thread state of the code under test cannot
/// travel from one run to the next, and thread creation in sixteen small processes costs a
/// fraction of what it costs in one big one.
pub fn run_batch(
    engine: &dyn Engine,
    seed: u64,
    start: u64,
    runs: u64,
    workers: usize,
    max_wall_s: f64,
    keep_digests: bool,
) -> Batch {
    let t0 = Instant::now();
    let workers = workers.max(1).min(((runs + 63) / 64).max(1) as usize);
    let mut merged = empty_batch();
    if workers == 1 {
        merged = run_shard(engine, seed, start, runs, 1, 0, max_wall_s, keep_digests);
    } else {
        let exe = std::env::current_exe().expect("current_exe");
        let children: Vec<_> = (0..workers)
            .map(|i| {
                std::process::Command::new(&exe)
                    .args([
                        "shard",
                        engine.name(),
                        &seed.to_string(),
                        &start.to_string(),
                        &runs.to_string(),
                        &workers.to_string(),
                        &i.to_string(),
                        &max_wall_s.to_string(),
                        if keep_digests { "1" } else { "0" },
                    ])
                    .stdin(std::process::Stdio::null())
                    .stdout(std::process::Stdio::piped())
                    .stderr(std::process::Stdio::inherit())
                    .spawn()
            })
            .collect();
        for (i, c) in children.into_iter().enumerate() {
            let part = c
                .and_then(|c| c.wait_with_output())
                .ok()
                .filter(|o| o.status.success())
                .and_then(|o| serde_json::from_slice::<Value>(&o.stdout).ok())
                .and_then(|j| batch_from_json(&j));
            match part {
                Some(local) => {
                    merged.runs_done += local.runs_done;
                    merged.sim_time += local.sim_time;
                    for (k, v) in local.stats {
                        *merged.stats.entry(k).or_insert(0) += v;
                    }
                    merged.sigs.extend(local.sigs);
                    merged.nontrivial_sigs.extend(local.nontrivial_sigs);
                    merged.found.extend(local.found);
                    merged.digests.extend(local.digests);
                    merged.timed_out |= local.timed_out;
                }
                None => merged.found.push(Found {
                    run: start,
                    variant: 0,
                    property: "HARNESS",
                    kind: "shard_failed".into(),
                    detail: format!("shard {} of {} did not deliver a result", i, workers),
                    tape: vec![],
                }),
            }
        }
    }
    let mut b = merged;
    b.found.sort_by(|a, b| (a.run, &a.kind).cmp(&(b.run, &b.kind)));
    b.digests.sort();
    b.wall_s = t0.elapsed().as_secs_f64();
    b
}

pub fn batch_digest(b: &Batch) -> u64 {
    let mut f = Fnv::default();
    for (r, d) in &b.digests {
        f.write_u64(*r);
        f.write_u64(*d);
    }
    f.0
}

// ------------------------------------------------------------ minimiser ----

fn reproduces(engine: &dyn Engine, tape: &[u64], variant: u64, property: &str, kind: &str) -> Option<RunOut> {
    let out = exec_one(engine, Tape::replay(tape.to_vec()), variant, false);
    if out
        .violations
        .iter()
        .any(|(p, k, _)| *p == property && k == kind)
    {
        Some(out)
    } else {
        None
    }
}

/// Delta-debugs the tape while the same violation class recurs.
pub fn minimise(engine: &dyn Engine, f: &Found) -> Vec<u64> {
    let t0 = Instant::now();
    let mut budget = 2000u32;
    let mut best = f.tape.clone();
    let ok = |cand: &[u64], budget: &mut u32| -> Option<Vec<u64>> {
        if *budget == 0 || t0.elapsed().as_secs_f64() > 10.0 {
            return None;
        }
        *budget -= 1;
        reproduces(engine, cand, f.variant, f.property, &f.kind).map(|o| {
            // keep only what was actually consumed
            let mut used = o.tape;
            if used.len() > cand.len() {
                used.truncate(cand.len().max(1));
            }
            used
        })
    };
    if ok(&best, &mut budget).is_none() {
        return best; // not reproducible from its own tape: caller reports harness error
    }
    // 1. truncate tail (reads past the end give 0)
    let mut lo = 0usize;
    let mut hi = best.len();
    while lo < hi {
        let mid = (lo + hi) / 2;
        if let Some(_) = ok(&best[..mid], &mut budget) {
            hi = mid;
        } else {
            lo = mid + 1;
        }
    }
    if hi < best.len() {
        if ok(&best[..hi], &mut budget).is_some() {
            best.truncate(hi);
        }
    }
    // 2. delete blocks
    let mut size = (best.len() / 2).max(1);
    while size >= 1 && budget > 0 {
        let mut i = 0;
        while i + size <= best.len() && budget > 0 {
            let mut cand = best.clone();
            cand.drain(i..i + size);
            if ok(&cand, &mut budget).is_some() {
                best = cand;
            } else {
                i += size;
            }
        }
        if size == 1 {
            break;
        }
        size /= 2;
    }
    // 3. zero, then halve entries
    for i in 0..best.len() {
        if budget == 0 {
            break;
        }
        if best[i] == 0 {
            continue;
        }
        let mut cand = best.clone();
        cand[i] = 0;
        if ok(&cand, &mut budget).is_some() {
            best = cand;
            continue;
        }
        let mut v = best[i];
        while v > 1 && budget > 0 {
            v /= 2;
            let mut cand = best.clone();
            cand[i] = v;
            if ok(&cand, &mut budget).is_some() {
                best = cand;
            } else {
                break;
            }
        }
    }
    while best.last() == Some(&0) {
        best.pop();
    }
    best
}

// ---------------------------------------------------------- known findings --

pub struct Known {
    pub status: String,
    pub property: String,
    pub kind: String,
    pub what: String,
}

pub fn load_known(path: &str) -> Vec<Known> {
    let mut v = Vec::new();
    if let Ok(text) = std::fs::read_to_string(path) {
        for line in text.lines() {
            let line = line.trim();
            if line.is_empty() || line.starts_with('#') {
                continue;
            }
            if let Ok(j) = serde_json::from_str::<Value>(line) {
                v.push(Known {
                    status: j["status"].as_str().unwrap_or("").to_string(),
                    property: j["property"].as_str().unwrap_or("").to_string(),
                    kind: j["kind"].as_str().unwrap_or("").to_string(),
                    what: j["what"].as_str().unwrap_or("").to_string(),
                });
            }
        }
    }
    v
}

// ------------------------------------------------------------- replay file --

pub fn write_replay(
    dir: &str,
    engine: &dyn Engine,
    seed: u64,
    f: &Found,
    tape: &[u64],
) -> Result<String, String> {
    std::fs::create_dir_all(dir).map_err(|e| e.to_string())?;
    let out = exec_one(engine, Tape::replay(tape.to_vec()), f.variant, true);
    let detail = out
        .violations
        .iter()
        .find(|(p, k, _)| *p == f.property && *k == f.kind)
        .map(|(_, _, d)| d.clone())
        .unwrap_or_else(|| f.detail.clone());
    let path = format!(
        "{}/{}-{}-{}-{:x}.json",
        dir,
        f.property,
        seed,
        f.run,
        crate::tape::fnv_str(&f.kind) & 0xffff
    );
    let j = json!({
        "engine": engine.name(),
        "property": f.property,
        "seed": seed,
        "run": f.run,
        "variant": f.variant,
        "violation_kind": f.kind,
        "detail": detail,
        "tape": tape,
        "original_tape_len": f.tape.len(),
        "trace": out.log,
    });
    std::fs::write(&path, serde_json::to_string_pretty(&j).unwrap()).map_err(|e| e.to_string())?;
    Ok(path)
}

/// Replays a file; returns (reproduced, trace).
pub fn replay_file(engine: &dyn Engine, j: &Value) -> (bool, Vec<String>, Vec<(String, String, String)>) {
    let tape: Vec<u64> = j["tape"]
        .as_array()
        .map(|a| a.iter().filter_map(|v| v.as_u64()).collect())
        .unwrap_or_default();
    let variant = j["variant"].as_u64().unwrap_or(0);
    let prop = j["property"].as_str().unwrap_or("");
    let kind = j["violation_kind"].as_str().unwrap_or("");
    let out = exec_one(engine, Tape::replay(tape), variant, true);
    let rep = out.violations.iter().any(|(p, k, _)| *p == prop && k == kind);
    (
        rep,
        out.log,
        out.violations
            .into_iter()
            .map(|(p, k, d)| (p.to_string(), k, d))
            .collect(),
    )
}

// ------------------------------------------------------------------ check --

pub struct CheckResult {
    pub exit: i32,
    pub evidence: Value,
}

/// The whole check for one property on one engine.
pub fn check(engine: &dyn Engine, o: &Opts) -> CheckResult {
    let t0 = Instant::now();
    println!(
        "VERIF_SEED={} engine={} property={} tier={} runs={} workers={}",
        o.seed,
        engine.name(),
        o.property,
        o.tier,
        o.runs,
        o.workers
    );
    // 1. determinism self-test: same indices, different worker count, in a
    //    separate process; digests must agree.
    let det = determinism_selftest(engine, o);
    if let Err(e) = &det {
        eprintln!("HARNESS-ERROR determinism self-test failed: {}", e);
        return CheckResult { exit: 2, evidence: Value::Null };
    }
    // 2. the search
    let b = run_batch(engine, o.seed, 0, o.runs, o.workers, o.max_wall_s, false);
    // 3. triage
    let known = load_known("/verif/known-findings.jsonl");
    let mut by_kind: BTreeMap<(String, String), &Found> = BTreeMap::new();
    for f in &b.found {
        by_kind
            .entry((f.property.to_string(), f.kind.clone()))
            .or_insert(f);
    }
    let mut exit = 0;
    let mut harness_err = false;
    let mut n_viol = 0;
    let mut known_lines = BTreeSet::new();
    let mut other_props: BTreeMap<String, u64> = BTreeMap::new();
    let mut replays = Vec::new();
    for ((prop, kind), f) in &by_kind {
        if prop == "HARNESS" {
            eprintln!("HARNESS-ERROR {} :: {}", kind, f.detail);
            harness_err = true;
            continue;
        }
        if prop != o.property {
            *other_props.entry(prop.clone()).or_insert(0) += 1;
            continue;
        }
        if let Some(k) = known
            .iter()
            .find(|k| k.status == "known" && &k.property == prop && &k.kind == kind)
        {
            known_lines.insert(format!(
                "KNOWN-FINDING: property={} kind={} {}",
                prop, kind, k.what
            ));
            continue;
        }
        let min = minimise(engine, f);
        let replay_dir = std::env::var("VERIF_REPLAY_DIR").unwrap_or_else(|_| "/verif/replays".to_string());
        match write_replay(&replay_dir, engine, o.seed, f, &min) {
            Ok(path) => {
                // replay in a fresh process before reporting
                let ok = std::process::Command::new(std::env::current_exe().unwrap())
                    .args(["replay", &path, "--quiet"])
                    .stdout(std::process::Stdio::null())
                    .status()
                    .map(|s| s.code() == Some(1))
                    .unwrap_or(false);
                if ok {
                    println!("VIOLATION property={} replay={}", prop, path);
                    println!("  kind={} run={} tape_len={} (from {}) :: {}", kind, f.run, min.len(), f.tape.len(), f.detail);
                    n_viol += 1;
                    replays.push(path);
                    if exit == 0 {
                        exit = 1;
                    }
                } else {
                    eprintln!(
                        "HARNESS-ERROR violation {} {} at run {} did not reproduce from {}",
                        prop, kind, f.run, path
                    );
                    exit = 2;
                }
            }
            Err(e) => {
                eprintln!("HARNESS-ERROR cannot write replay: {}", e);
                exit = 2;
            }
        }
    }
    for l in &known_lines {
        println!("{}", l);
    }
    // a reproduced violation of the property outranks harness trouble in other runs
    if harness_err && exit == 0 {
        exit = 2;
    }
    // 4. probes
    let mut missing = Vec::new();
    for p in engine.required_probes() {
        if b.stats.get(p).copied().unwrap_or(0) == 0 {
            missing.push(p);
        }
    }
    if !missing.is_empty() {
        eprintln!("HARNESS-ERROR probes stuck at zero: {:?}", missing);
        if exit == 0 {
            exit = 2;
        }
    }
    // 5. evidence
    let wall = t0.elapsed().as_secs_f64();
    let samples = sample_runs(engine, o.seed, 3);
    let faults: BTreeMap<&str, u64> = b
        .stats
        .iter()
        .filter(|(k, _)| k.starts_with("fault."))
        .map(|(k, v)| (*k, *v))
        .collect();
    let probes: BTreeMap<&str, u64> = b
        .stats
        .iter()
        .filter(|(k, _)| !k.starts_with("fault."))
        .map(|(k, v)| (*k, *v))
        .collect();
    let ev = json!({
        "property_id": o.property,
        "tier": o.tier,
        "seed": o.seed,
        "level": o.level,
        "coverage": {
            "evaluations": b.runs_done,
            "distinct_nontrivial": b.nontrivial_sigs.len(),
            "distinct_signatures": b.sigs.len(),
            "rule": engine.rule(),
            "samples": samples,
            "simulated_runs": b.runs_done,
            "runs_per_hour": if b.wall_s > 0.0 { (b.runs_done as f64 / b.wall_s * 3600.0) as u64 } else { 0 },
            "simulated_time_ns": b.sim_time,
            "faults_fired": faults,
            "probes": probes,
            "determinism_selftest": det.unwrap_or(Value::Null),
            "components": engine.components(),
            "search_wall_s": b.wall_s,
            "timed_out_before_all_runs": b.timed_out,
            "violations_of_other_properties_seen_not_reported_here": other_props,
            "known_findings_hit": known_lines.iter().collect::<Vec<_>>(),
            "replay_files": replays,
            "workers": o.workers,
            "extra": o.extra,
        },
        "assumptions": engine.assumptions(),
        "wall_s": wall,
        "violations": n_viol,
    });
    println!(
        "done property={} runs={} distinct_nontrivial={} violations={} known={} wall={:.1}s exit={}",
        o.property,
        b.runs_done,
        b.nontrivial_sigs.len(),
        n_viol,
        known_lines.len(),
        wall,
        exit
    );
    CheckResult { exit, evidence: ev }
}

pub fn write_evidence(path: &str, ev: &Value) -> bool {
    if let Some(dir) = std::path::Path::new(path).parent() {
        let _ = std::fs::create_dir_all(dir);
    }
    match std::fs::write(path, serde_json::to_string_pretty(ev).unwrap()) {
        Ok(()) => true,
        Err(e) => {
            eprintln!("HARNESS-ERROR cannot write evidence: {}", e);
            false
        }
    }
}

fn sample_runs(engine: &dyn Engine, seed: u64, n: u64) -> Vec<Value> {
    let nvar = engine.variants().max(1);
    (0..n)
        .map(|run| {
            let out = exec_one(
                engine,
                Tape::from_seed(run_seed(seed, engine, run)),
                run % nvar,
                true,
            );
            let mut log = out.log;
            if log.len() > 40 {
                log.truncate(40);
                log.push("…".into());
            }
            json!({"run": run, "tape_len": out.tape.len(), "sim_time_ns": out.sim_time, "trace": log})
        })
        .collect()
}

fn determinism_selftest(engine: &dyn Engine, o: &Opts) -> Result<Value, String> {
    let n = o.det_runs;
    if n == 0 {
        return Ok(json!({"runs": 0}));
    }
    let a = run_batch(engine, o.seed, 0, n, o.workers, 600.0, true);
    let da = batch_digest(&a);
    let exe = std::env::current_exe().map_err(|e| e.to_string())?;
    let out = std::process::Command::new(exe)
        .args([
            "digest",
            engine.name(),
            &o.seed.to_string(),
            &n.to_string(),
            "3",
        ])
        .output()
        .map_err(|e| e.to_string())?;
    let text = String::from_utf8_lossy(&out.stdout);
    let db = text
        .lines()
        .find_map(|l| l.strip_prefix("DIGEST "))
        .and_then(|s| u64::from_str_radix(s.trim(), 16).ok())
        .ok_or_else(|| format!("child printed no digest: {:?} {:?}", text, String::from_utf8_lossy(&out.stderr)))?;
    if da != db {
        return Err(format!(
            "digest mismatch over {} runs: {:016x} ({} workers, this process) vs {:016x} (3 workers, child process)",
            n, da, o.workers, db
        ));
    }
    Ok(json!({"runs": n, "digest": format!("{:016x}", da), "compared": format!("{} workers in-process vs 3 workers in a child process", o.workers)}))
}
