//! Single-threaded deterministic executor.  The scheduler (the tape) decides
//! which woken task is polled next, when a task is polled spuriously, and
//! when a task is cancelled (its future dropped).  When nothing is runnable
//! the clock jumps to the next timer.

use crate::ctx::Ctx;
use std::future::Future;
use std::pin::Pin;
use std::sync::atomic::{AtomicBool, Ordering};
use std::sync::Arc;
use std::task::{Context, Poll, Wake, Waker};

struct Flag(AtomicBool);

impl Wake for Flag {
    fn wake(self: Arc<Self>) {
        self.0.store(true, Ordering::SeqCst);
    }
    fn wake_by_ref(self: &Arc<Self>) {
        self.0.store(true, Ordering::SeqCst);
    }
}

pub struct Task<'a> {
    fut: Option<Pin<Box<dyn Future<Output = ()> + 'a>>>,
    flag: Arc<Flag>,
    waker: Waker,
    /// cancel this task once it has been polled this many times
    pub cancel_after: Option<u32>,
    pub polls: u32,
    pub cancelled: bool,
}

pub struct ExecKnobs {
    pub spurious_polls: bool,
    pub max_polls: u32,
}

pub struct ExecReport {
    pub polls: u32,
    pub stalled: bool,
    pub exceeded: bool,
}

pub fn task<'a>(fut: impl Future<Output = ()> + 'a, cancel_after: Option<u32>) -> Task<'a> {
    let flag = Arc::new(Flag(AtomicBool::new(true)));
    let waker = Waker::from(flag.clone());
    Task {
        fut: Some(Box::pin(fut)),
        flag,
        waker,
        cancel_after,
        polls: 0,
        cancelled: false,
    }
}

/// Runs tasks to completion under the tape-driven scheduler.
pub fn run_tasks(ctx: &Ctx, tasks: &mut [Task<'_>], knobs: &ExecKnobs) -> ExecReport {
    let mut polls = 0u32;
    let mut report = ExecReport {
        polls: 0,
        stalled: false,
        exceeded: false,
    };
    loop {
        let live: Vec<usize> = (0..tasks.len()).filter(|i| tasks[*i].fut.is_some()).collect();
        if live.is_empty() {
            break;
        }
        if polls >= knobs.max_polls {
            report.exceeded = true;
            break;
        }
        let runnable: Vec<usize> = live
            .iter()
            .copied()
            .filter(|i| tasks[*i].flag.0.load(Ordering::SeqCst))
            .collect();
        let idx = if runnable.is_empty() {
            // nothing runnable: jump the clock to the next event
            let w = ctx.lock().sched.fire_next();
            match w {
                Some(w) => {
                    ctx.count("sched.timer_fired");
                    w.wake();
                    continue;
                }
                None => {
                    report.stalled = true;
                    break;
                }
            }
        } else if knobs.spurious_polls && live.len() > runnable.len() && ctx.chance(1, 8) {
            // spurious poll of a task nobody woke
            let sleepers: Vec<usize> = live
                .iter()
                .copied()
                .filter(|i| !runnable.contains(i))
                .collect();
            ctx.count("sched.spurious_poll");
            sleepers[ctx.draw(sleepers.len() as u64) as usize]
        } else if runnable.len() == 1 {
            runnable[0]
        } else {
            ctx.count("sched.choice_among_runnable");
            runnable[ctx.draw(runnable.len() as u64) as usize]
        };
        let t = &mut tasks[idx];
        if let Some(n) = t.cancel_after {
            if t.polls >= n {
                // cancellation: the call future is dropped mid-flight
                t.fut = None;
                t.cancelled = true;
                ctx.count("fault.cancel_fired");
                ctx.log(|| format!("cancel task={} after_polls={}", idx, n));
                continue;
            }
        }
        t.flag.0.store(false, Ordering::SeqCst);
        t.polls += 1;
        polls += 1;
        let waker = t.waker.clone();
        let mut cx = Context::from_waker(&waker);
        let done = match t.fut.as_mut() {
            Some(f) => matches!(f.as_mut().poll(&mut cx), Poll::Ready(())),
            None => true,
        };
        if done {
            t.fut = None;
        }
    }
    report.polls = polls;
    ctx.count_n("sched.polls", polls as u64);
    report
}

/// Convenience: run one future to completion (no cancellation).
pub fn block_on<'a, T: 'a>(ctx: &Ctx, fut: impl Future<Output = T> + 'a, knobs: &ExecKnobs) -> (Option<T>, ExecReport) {
    let slot = std::cell::RefCell::new(None);
    let report = {
        let slot_ref = &slot;
        let mut tasks = [task(
            async move {
                let v = fut.await;
                *slot_ref.borrow_mut() = Some(v);
            },
            None,
        )];
        run_tasks(ctx, &mut tasks, knobs)
    };
    (slot.into_inner(), report)
}
