//! Hand-written `#[conjure_client]` / `#[conjure_endpoints]` traits mirroring
//! part of ir/sim-ir.json, so that macro-derived clients talk to generated
//! endpoints and generated clients talk to macro-derived endpoints — with the
//! macros' default `Display` / `FromStr` codecs, sequence encoders, `log_as`
//! names and a foreign Smile-speaking client.

use crate::glue::{bx, ArgVal, DynVal, Handler};
use crate::ir::ir;
use crate::sim_ir;
use crate::transport::{AsyncEp, SimTransport, SyncEp};
use bytes::Bytes;
use conjure_error::Error;
use conjure_http::client::{
    AsyncDeserializeResponse, AsyncRequestBody, AsyncSerializeRequest, AsyncService as _, ConjureResponseDeserializer, DeserializeResponse,
    DisplaySeqEncoder, EncodeParam, RequestBody, SerializeRequest, Service as _,
};
use conjure_http::server::conjure::CollectionResponseSerializer;
use conjure_http::server::{
    ConjureRuntime, FromStrDecoder, FromStrOptionDecoder, FromStrSeqDecoder, StdRequestDeserializer, StdResponseSerializer,
};
use conjure_http::{conjure_client, conjure_endpoints, endpoint};
use conjure_object::BearerToken;
use futures_core::Stream;
use http::header::CONTENT_TYPE;
use http::{HeaderValue, Response};
use serde::de::DeserializeOwned;
use serde::Serialize;
use std::future::poll_fn;
use std::pin::Pin;
use std::sync::Arc;

const SMILE: &str = "application/x-jackson-smile";

// ------------------------------------------------ the foreign Smile peer --

pub enum SmileResponseDeserializer {}

impl<T, R> DeserializeResponse<T, R> for SmileResponseDeserializer
where
    T: DeserializeOwned,
    R: Iterator<Item = Result<Bytes, Error>>,
{
    fn accept() -> Option<HeaderValue> {
        Some(HeaderValue::from_static(SMILE))
    }

    fn deserialize(response: Response<R>) -> Result<T, Error> {
        if response.headers().get(CONTENT_TYPE).map(|v| v.as_bytes()) != Some(SMILE.as_bytes()) {
            return Err(Error::internal_safe("smile peer: unexpected response Content-Type"));
        }
        let mut buf = Vec::new();
        for chunk in response.into_body() {
            buf.extend_from_slice(&chunk?);
        }
        conjure_serde::smile::client_from_slice(&buf).map_err(Error::internal)
    }
}

impl<T, R> AsyncDeserializeResponse<T, R> for SmileResponseDeserializer
where
    T: DeserializeOwned,
    R: Stream<Item = Result<Bytes, Error>> + Send,
{
    fn accept() -> Option<HeaderValue> {
        Some(HeaderValue::from_static(SMILE))
    }

    async fn deserialize(response: Response<R>) -> Result<T, Error> {
        if response.headers().get(CONTENT_TYPE).map(|v| v.as_bytes()) != Some(SMILE.as_bytes()) {
            return Err(Error::internal_safe("smile peer: unexpected response Content-Type"));
        }
        let mut body = Box::pin(response.into_body());
        let mut buf = Vec::new();
        while let Some(chunk) = poll_fn(|cx| body.as_mut().poll_next(cx)).await {
            buf.extend_from_slice(&chunk?);
        }
        conjure_serde::smile::client_from_slice(&buf).map_err(Error::internal)
    }
}

pub enum SmileRequestSerializer {}

impl<'a, T, W> SerializeRequest<'a, T, W> for SmileRequestSerializer
where
    T: Serialize,
{
    fn content_type(_: &T) -> HeaderValue {
        HeaderValue::from_static(SMILE)
    }
    fn serialize(value: T) -> Result<RequestBody<'a, W>, Error> {
        let buf = conjure_serde::smile::to_vec(&value).map_err(Error::internal)?;
        Ok(RequestBody::Fixed(buf.into()))
    }
}

impl<'a, T, W> AsyncSerializeRequest<'a, T, W> for SmileRequestSerializer
where
    T: Serialize,
{
    fn content_type(_: &T) -> HeaderValue {
        HeaderValue::from_static(SMILE)
    }
    fn serialize(value: T) -> Result<AsyncRequestBody<'a, W>, Error> {
        let buf = conjure_serde::smile::to_vec(&value).map_err(Error::internal)?;
        Ok(AsyncRequestBody::Fixed(buf.into()))
    }
}

// ------------------------------------------------------------ macro clients --

#[conjure_client(name = "ParamService")]
pub trait MParam {
    #[endpoint(method = GET, path = "/p/mixed/{fooBar}/lit/{type}/end", name = "pathMixed")]
    fn path_mixed(&self, #[path(name = "fooBar")] foo_bar: &str, #[path(name = "type")] type_: i32) -> Result<(), Error>;

    #[endpoint(method = POST, path = "/q/mixed/{fooBar}", name = "queryMixed", accept = ConjureResponseDeserializer)]
    fn query_mixed(
        &self,
        #[path(name = "fooBar")] foo_bar: &str,
        #[query(name = "type", encoder = DisplaySeqEncoder)] type_: Option<&str>,
        #[query(name = "camel-case")] camel_case: &str,
        #[query(name = "l", encoder = DisplaySeqEncoder)] list: &[String],
        #[body] body: &sim_ir::Leaf,
    ) -> Result<String, Error>;

    #[endpoint(method = GET, path = "/h/mixed/{p}", name = "headerMixed")]
    fn header_mixed(
        &self,
        #[auth] auth_: &BearerToken,
        #[path] p: i32,
        #[header(name = "X-Num")] num_header: i32,
        #[header(name = "X-Type", encoder = DisplaySeqEncoder)] type_: Option<&str>,
        #[query(name = "q", encoder = DisplaySeqEncoder)] q: Option<i32>,
    ) -> Result<(), Error>;

    #[endpoint(method = GET, path = "/a/cookie/{p}", name = "authCookie", accept = ConjureResponseDeserializer)]
    fn auth_cookie(&self, #[auth(cookie_name = "simcookie")] auth_: &BearerToken, #[path] p: &str) -> Result<Option<String>, Error>;
}

#[conjure_client(name = "ParamService")]
pub trait MParamAsync {
    #[endpoint(method = GET, path = "/p/mixed/{fooBar}/lit/{type}/end", name = "pathMixed")]
    async fn path_mixed(&self, #[path(name = "fooBar")] foo_bar: &str, #[path(name = "type")] type_: i32) -> Result<(), Error>;

    #[endpoint(method = POST, path = "/q/mixed/{fooBar}", name = "queryMixed", accept = ConjureResponseDeserializer)]
    async fn query_mixed(
        &self,
        #[path(name = "fooBar")] foo_bar: &str,
        #[query(name = "type", encoder = DisplaySeqEncoder)] type_: Option<&str>,
        #[query(name = "camel-case")] camel_case: &str,
        #[query(name = "l", encoder = DisplaySeqEncoder)] list: &[String],
        #[body] body: &sim_ir::Leaf,
    ) -> Result<String, Error>;

    #[endpoint(method = GET, path = "/h/mixed/{p}", name = "headerMixed")]
    async fn header_mixed(
        &self,
        #[auth] auth_: &BearerToken,
        #[path] p: i32,
        #[header(name = "X-Num")] num_header: i32,
        #[header(name = "X-Type", encoder = DisplaySeqEncoder)] type_: Option<&str>,
        #[query(name = "q", encoder = DisplaySeqEncoder)] q: Option<i32>,
    ) -> Result<(), Error>;

    #[endpoint(method = GET, path = "/a/cookie/{p}", name = "authCookie", accept = ConjureResponseDeserializer)]
    async fn auth_cookie(&self, #[auth(cookie_name = "simcookie")] auth_: &BearerToken, #[path] p: &str) -> Result<Option<String>, Error>;
}

#[conjure_client(name = "ReturnService")]
pub trait MRet {
    #[endpoint(method = GET, path = "/r/none", name = "retNone")]
    fn ret_none(&self) -> Result<(), Error>;
    #[endpoint(method = GET, path = "/r/string", name = "retString", accept = ConjureResponseDeserializer)]
    fn ret_string(&self) -> Result<String, Error>;
    #[endpoint(method = GET, path = "/r/node", name = "retNode", accept = ConjureResponseDeserializer)]
    fn ret_node(&self) -> Result<sim_ir::Node, Error>;
    #[endpoint(method = GET, path = "/r/optString", name = "retOptString", accept = ConjureResponseDeserializer)]
    fn ret_opt_string(&self) -> Result<Option<String>, Error>;
    #[endpoint(method = GET, path = "/r/list", name = "retList", accept = ConjureResponseDeserializer)]
    fn ret_list(&self) -> Result<Vec<sim_ir::Leaf>, Error>;
}

#[conjure_client(name = "ReturnService")]
pub trait MRetAsync {
    #[endpoint(method = GET, path = "/r/none", name = "retNone")]
    async fn ret_none(&self) -> Result<(), Error>;
    #[endpoint(method = GET, path = "/r/string", name = "retString", accept = ConjureResponseDeserializer)]
    async fn ret_string(&self) -> Result<String, Error>;
    #[endpoint(method = GET, path = "/r/node", name = "retNode", accept = ConjureResponseDeserializer)]
    async fn ret_node(&self) -> Result<sim_ir::Node, Error>;
    #[endpoint(method = GET, path = "/r/optString", name = "retOptString", accept = ConjureResponseDeserializer)]
    async fn ret_opt_string(&self) -> Result<Option<String>, Error>;
    #[endpoint(method = GET, path = "/r/list", name = "retList", accept = ConjureResponseDeserializer)]
    async fn ret_list(&self) -> Result<Vec<sim_ir::Leaf>, Error>;
}

/// the Smile-speaking peer
#[conjure_client(name = "ReturnService")]
pub trait SRet {
    #[endpoint(method = GET, path = "/r/node", name = "retNode", accept = SmileResponseDeserializer)]
    fn ret_node(&self) -> Result<sim_ir::Node, Error>;
    #[endpoint(method = GET, path = "/r/keys", name = "retKeys", accept = SmileResponseDeserializer)]
    fn ret_keys(&self) -> Result<sim_ir::Keys, Error>;
    #[endpoint(method = GET, path = "/r/double", name = "retDouble", accept = SmileResponseDeserializer)]
    fn ret_double(&self) -> Result<f64, Error>;
}

#[conjure_client(name = "ReturnService")]
pub trait SRetAsync {
    #[endpoint(method = GET, path = "/r/node", name = "retNode", accept = SmileResponseDeserializer)]
    async fn ret_node(&self) -> Result<sim_ir::Node, Error>;
    #[endpoint(method = GET, path = "/r/keys", name = "retKeys", accept = SmileResponseDeserializer)]
    async fn ret_keys(&self) -> Result<sim_ir::Keys, Error>;
    #[endpoint(method = GET, path = "/r/double", name = "retDouble", accept = SmileResponseDeserializer)]
    async fn ret_double(&self) -> Result<f64, Error>;
}

#[conjure_client(name = "BodyService")]
pub trait MBody {
    #[endpoint(method = POST, path = "/b/node", name = "bodyNode", accept = ConjureResponseDeserializer)]
    fn body_node(&self, #[body] body: &sim_ir::Node) -> Result<sim_ir::Node, Error>;
}

#[conjure_client(name = "BodyService")]
pub trait MBodyAsync {
    #[endpoint(method = POST, path = "/b/node", name = "bodyNode", accept = ConjureResponseDeserializer)]
    async fn body_node(&self, #[body] body: &sim_ir::Node) -> Result<sim_ir::Node, Error>;
}

#[conjure_client(name = "BodyService")]
pub trait SBody {
    #[endpoint(method = POST, path = "/b/node", name = "bodyNode", accept = SmileResponseDeserializer)]
    fn body_node(&self, #[body(serializer = SmileRequestSerializer)] body: &sim_ir::Node) -> Result<sim_ir::Node, Error>;
    #[endpoint(method = POST, path = "/b/keys", name = "bodyKeys", accept = SmileResponseDeserializer)]
    fn body_keys(&self, #[body(serializer = SmileRequestSerializer)] body: &sim_ir::Keys) -> Result<sim_ir::Keys, Error>;
}

#[conjure_client(name = "BodyService")]
pub trait SBodyAsync {
    #[endpoint(method = POST, path = "/b/node", name = "bodyNode", accept = SmileResponseDeserializer)]
    async fn body_node(&self, #[body(serializer = SmileRequestSerializer)] body: &sim_ir::Node) -> Result<sim_ir::Node, Error>;
    #[endpoint(method = POST, path = "/b/keys", name = "bodyKeys", accept = SmileResponseDeserializer)]
    async fn body_keys(&self, #[body(serializer = SmileRequestSerializer)] body: &sim_ir::Keys) -> Result<sim_ir::Keys, Error>;
}

// --------------------------------------------------------- macro endpoints --

#[conjure_endpoints(name = "ParamService")]
pub trait MParamSrv {
    #[endpoint(method = GET, path = "/p/mixed/{fooBar}/lit/{type}/end", name = "pathMixed")]
    fn path_mixed(&self, #[path(name = "fooBar", log_as = "fooBar")] foo_bar: String, #[path(name = "type", log_as = "type")] type_: i32) -> Result<(), Error>;

    #[endpoint(method = POST, path = "/q/mixed/{fooBar}", name = "queryMixed", produces = StdResponseSerializer)]
    fn query_mixed(
        &self,
        #[path(name = "fooBar", log_as = "fooBar")] foo_bar: String,
        #[query(name = "type", decoder = FromStrOptionDecoder, log_as = "type")] type_: Option<String>,
        #[query(name = "camel-case", log_as = "camelCase")] camel_case: String,
        #[query(name = "l", decoder = FromStrSeqDecoder<_>)] list: Vec<String>,
        #[body(deserializer = StdRequestDeserializer)] body: sim_ir::Leaf,
    ) -> Result<String, Error>;

    #[endpoint(method = GET, path = "/h/mixed/{p}", name = "headerMixed")]
    fn header_mixed(
        &self,
        #[auth] auth_: BearerToken,
        #[path(decoder = FromStrDecoder)] p: i32,
        #[header(name = "X-Num", log_as = "numHeader")] num_header: i32,
        #[header(name = "X-Type", decoder = FromStrOptionDecoder, log_as = "type")] type_: Option<String>,
        #[query(name = "q", decoder = FromStrOptionDecoder)] q: Option<i32>,
    ) -> Result<(), Error>;

    #[endpoint(method = GET, path = "/a/cookie/{p}", name = "authCookie", produces = CollectionResponseSerializer)]
    fn auth_cookie(&self, #[auth(cookie_name = "simcookie")] auth_: BearerToken, #[path] p: String) -> Result<Option<String>, Error>;
}

#[conjure_endpoints(name = "ParamService")]
pub trait MParamSrvAsync {
    #[endpoint(method = GET, path = "/p/mixed/{fooBar}/lit/{type}/end", name = "pathMixed")]
    async fn path_mixed(&self, #[path(name = "fooBar", log_as = "fooBar")] foo_bar: String, #[path(name = "type", log_as = "type")] type_: i32) -> Result<(), Error>;

    #[endpoint(method = POST, path = "/q/mixed/{fooBar}", name = "queryMixed", produces = StdResponseSerializer)]
    async fn query_mixed(
        &self,
        #[path(name = "fooBar", log_as = "fooBar")] foo_bar: String,
        #[query(name = "type", decoder = FromStrOptionDecoder, log_as = "type")] type_: Option<String>,
        #[query(name = "camel-case", log_as = "camelCase")] camel_case: String,
        #[query(name = "l", decoder = FromStrSeqDecoder<_>)] list: Vec<String>,
        #[body(deserializer = StdRequestDeserializer)] body: sim_ir::Leaf,
    ) -> Result<String, Error>;

    #[endpoint(method = GET, path = "/h/mixed/{p}", name = "headerMixed")]
    async fn header_mixed(
        &self,
        #[auth] auth_: BearerToken,
        #[path(decoder = FromStrDecoder)] p: i32,
        #[header(name = "X-Num", log_as = "numHeader")] num_header: i32,
        #[header(name = "X-Type", decoder = FromStrOptionDecoder, log_as = "type")] type_: Option<String>,
        #[query(name = "q", decoder = FromStrOptionDecoder)] q: Option<i32>,
    ) -> Result<(), Error>;

    #[endpoint(method = GET, path = "/a/cookie/{p}", name = "authCookie", produces = CollectionResponseSerializer)]
    async fn auth_cookie(&self, #[auth(cookie_name = "simcookie")] auth_: BearerToken, #[path] p: String) -> Result<Option<String>, Error>;
}

#[conjure_endpoints(name = "ReturnService")]
pub trait MRetSrv {
    #[endpoint(method = GET, path = "/r/string", name = "retString", produces = StdResponseSerializer)]
    fn ret_string(&self) -> Result<String, Error>;
    #[endpoint(method = GET, path = "/r/node", name = "retNode", produces = StdResponseSerializer)]
    fn ret_node(&self) -> Result<sim_ir::Node, Error>;
    #[endpoint(method = GET, path = "/r/optString", name = "retOptString", produces = CollectionResponseSerializer)]
    fn ret_opt_string(&self) -> Result<Option<String>, Error>;
    #[endpoint(method = GET, path = "/r/list", name = "retList", produces = CollectionResponseSerializer)]
    fn ret_list(&self) -> Result<Vec<sim_ir::Leaf>, Error>;
}

#[conjure_endpoints(name = "ReturnService")]
pub trait MRetSrvAsync {
    #[endpoint(method = GET, path = "/r/string", name = "retString", produces = StdResponseSerializer)]
    async fn ret_string(&self) -> Result<String, Error>;
    #[endpoint(method = GET, path = "/r/node", name = "retNode", produces = StdResponseSerializer)]
    async fn ret_node(&self) -> Result<sim_ir::Node, Error>;
    #[endpoint(method = GET, path = "/r/optString", name = "retOptString", produces = CollectionResponseSerializer)]
    async fn ret_opt_string(&self) -> Result<Option<String>, Error>;
    #[endpoint(method = GET, path = "/r/list", name = "retList", produces = CollectionResponseSerializer)]
    async fn ret_list(&self) -> Result<Vec<sim_ir::Leaf>, Error>;
}

/// A custom parameter encoder that can refuse a value, as hand-written client traits may have:
/// the call then fails on the client, after part of the URI has been built, and nothing is sent.
pub enum PickyEncoder {}

/// the values `PickyEncoder` refuses
pub fn picky_refuses(v: &[i32]) -> bool {
    v.iter().any(|x| x.rem_euclid(8) == 3)
}

impl<'a> EncodeParam<&'a [i32]> for PickyEncoder {
    fn encode(value: &'a [i32]) -> Result<Vec<String>, Error> {
        if picky_refuses(value) {
            return Err(Error::internal_safe("value refused by the parameter encoder"));
        }
        Ok(value.iter().map(|x| x.to_string()).collect())
    }
}

/// True when the client itself has to refuse the call (nothing may be sent).
pub fn client_refuses(ep: usize, args: &[ArgVal]) -> bool {
    let m = &ir().eps[ep];
    m.service == "MacroOnly" && m.name == "segments" && picky_refuses(args[3].get::<Vec<i32>>())
}

/// exists only as macro traits: a multi-segment path parameter, a query key the macro has to escape,
/// a query encoder that may refuse
#[conjure_client(name = "MacroOnly")]
pub trait MOnly {
    #[endpoint(method = GET, path = "/mo/{head}/n/{num}/raw/{tail}", name = "segments", accept = ConjureResponseDeserializer)]
    fn segments(
        &self,
        #[path] head: &str,
        #[path] num: i32,
        #[path(encoder = DisplaySeqEncoder)] tail: &[String],
        #[query(name = "k&ey", encoder = PickyEncoder)] q: &[i32],
        #[query(name = "o", encoder = DisplaySeqEncoder)] opt: Option<i32>,
        #[header(name = "X-Opt-Num", encoder = DisplaySeqEncoder)] opt_num: Option<i32>,
    ) -> Result<String, Error>;
}

#[conjure_client(name = "MacroOnly")]
pub trait MOnlyAsync {
    #[endpoint(method = GET, path = "/mo/{head}/n/{num}/raw/{tail}", name = "segments", accept = ConjureResponseDeserializer)]
    async fn segments(
        &self,
        #[path] head: &str,
        #[path] num: i32,
        #[path(encoder = DisplaySeqEncoder)] tail: &[String],
        #[query(name = "k&ey", encoder = PickyEncoder)] q: &[i32],
        #[query(name = "o", encoder = DisplaySeqEncoder)] opt: Option<i32>,
        #[header(name = "X-Opt-Num", encoder = DisplaySeqEncoder)] opt_num: Option<i32>,
    ) -> Result<String, Error>;
}

#[conjure_endpoints(name = "MacroOnly")]
pub trait MOnlySrv {
    #[endpoint(method = GET, path = "/mo/{head}/n/{num}/raw/{tail}", name = "segments", produces = StdResponseSerializer)]
    fn segments(
        &self,
        #[path(name = "head", log_as = "headSegment")] head: String,
        #[path(name = "num", log_as = "theNumber", decoder = FromStrDecoder)] num: i32,
        #[path(decoder = FromStrSeqDecoder<_>)] tail: Vec<String>,
        #[query(name = "k&ey", decoder = FromStrSeqDecoder<_>, log_as = "q")] q: Vec<i32>,
        #[query(name = "o", decoder = FromStrOptionDecoder, log_as = "opt")] opt: Option<i32>,
        #[header(name = "X-Opt-Num", decoder = FromStrOptionDecoder, log_as = "optNum")] opt_num: Option<i32>,
    ) -> Result<String, Error>;
}

#[conjure_endpoints(name = "MacroOnly")]
pub trait MOnlySrvAsync {
    #[endpoint(method = GET, path = "/mo/{head}/n/{num}/raw/{tail}", name = "segments", produces = StdResponseSerializer)]
    async fn segments(
        &self,
        #[path(name = "head", log_as = "headSegment")] head: String,
        #[path(name = "num", log_as = "theNumber", decoder = FromStrDecoder)] num: i32,
        #[path(decoder = FromStrSeqDecoder<_>)] tail: Vec<String>,
        #[query(name = "k&ey", decoder = FromStrSeqDecoder<_>, log_as = "q")] q: Vec<i32>,
        #[query(name = "o", decoder = FromStrOptionDecoder, log_as = "opt")] opt: Option<i32>,
        #[header(name = "X-Opt-Num", decoder = FromStrOptionDecoder, log_as = "optNum")] opt_num: Option<i32>,
    ) -> Result<String, Error>;
}

macro_rules! only_handler_impl {
    ($trait_:ident, $($async_:ident)?) => {
        impl $trait_ for Handler {
            $($async_)? fn segments(&self, head: String, num: i32, tail: Vec<String>, q: Vec<i32>, opt: Option<i32>, opt_num: Option<i32>) -> Result<String, Error> {
                crate::glue::take_ret::<String>(self.enter(idx("MacroOnly", "segments"), vec![("headSegment", bx(head)), ("theNumber", bx(num)), ("tail", bx(tail)), ("q", bx(q)), ("opt", bx(opt)), ("optNum", bx(opt_num))], None)?)
            }
        }
    };
}
only_handler_impl!(MOnlySrv,);
only_handler_impl!(MOnlySrvAsync, async);

/// endpoints that have no generated counterpart: always present in the server's endpoint list
pub fn macro_only_endpoints_blocking(h: &Handler, rt: &Arc<ConjureRuntime>) -> Vec<SyncEp> {
    use conjure_http::server::Service;
    MOnlySrvEndpoints::new(h.clone()).endpoints(rt)
}

pub fn macro_only_endpoints_async(h: &Handler, rt: &Arc<ConjureRuntime>) -> Vec<AsyncEp> {
    use conjure_http::server::AsyncService;
    MOnlySrvAsyncEndpoints::new(h.clone()).endpoints(rt)
}

pub fn gen_args(ep: usize, t: &mut crate::tape::Tape, g: &crate::glue::GenKnobs) -> Vec<ArgVal> {
    use crate::glue::{Gen, Kind};
    if ep < ir().generated {
        return crate::glue_gen::gen_args(ep, t, g);
    }
    let head = <String as Gen>::gen(t, &g.at(Kind::Path, false));
    let mut tail = <Vec<String> as Gen>::gen(t, &g.at(Kind::Path, false));
    if tail.is_empty() {
        // zero items would mean zero segments: not routable to this template
        tail.push(<String as Gen>::gen(t, &g.at(Kind::Path, false)));
    }
    let q = <Vec<i32> as Gen>::gen(t, &g.at(Kind::Query, false));
    let opt = <Option<i32> as Gen>::gen(t, &g.at(Kind::Query, false));
    let num = <i32 as Gen>::gen(t, &g.at(Kind::Path, false));
    let opt_num = <Option<i32> as Gen>::gen(t, &g.at(Kind::Header, false));
    vec![ArgVal::new("headSegment", bx(head)), ArgVal::new("theNumber", bx(num)), ArgVal::new("tail", bx(tail)), ArgVal::new("q", bx(q)), ArgVal::new("opt", bx(opt)), ArgVal::new("optNum", bx(opt_num))]
}

pub fn gen_ret(ep: usize, t: &mut crate::tape::Tape, g: &crate::glue::GenKnobs) -> Box<dyn DynVal> {
    use crate::glue::{Gen, Kind};
    if ep < ir().generated {
        return crate::glue_gen::gen_ret(ep, t, g);
    }
    bx(<String as Gen>::gen(t, &g.at(Kind::Return, false)))
}

pub fn ret_from_json(ep: usize, doc: &str) -> Option<Box<dyn DynVal>> {
    if ep < ir().generated {
        return crate::glue_gen::ret_from_json(ep, doc);
    }
    conjure_serde::json::client_from_str::<String>(doc).ok().map(bx)
}

pub fn macro_only(ep: usize) -> bool {
    ep >= ir().generated
}

fn idx(service: &str, name: &str) -> usize {
    ir().ep(service, name).idx
}

macro_rules! handler_impl {
    ($trait_:ident, $($async_:ident)?) => {
        impl $trait_ for Handler {
            $($async_)? fn path_mixed(&self, foo_bar: String, type_: i32) -> Result<(), Error> {
                let r = self.enter(idx("ParamService", "pathMixed"), vec![("fooBar", bx(foo_bar)), ("type", bx(type_))], None)?;
                crate::glue::take_ret::<()>(r)
            }
            $($async_)? fn query_mixed(&self, foo_bar: String, type_: Option<String>, camel_case: String, list: Vec<String>, body: sim_ir::Leaf) -> Result<String, Error> {
                let r = self.enter(
                    idx("ParamService", "queryMixed"),
                    vec![("fooBar", bx(foo_bar)), ("type", bx(type_)), ("camelCase", bx(camel_case)), ("list", bx(list)), ("body", bx(body))],
                    None,
                )?;
                crate::glue::take_ret::<String>(r)
            }
            $($async_)? fn header_mixed(&self, auth_: BearerToken, p: i32, num_header: i32, type_: Option<String>, q: Option<i32>) -> Result<(), Error> {
                let r = self.enter(
                    idx("ParamService", "headerMixed"),
                    vec![("auth_", bx(auth_)), ("p", bx(p)), ("numHeader", bx(num_header)), ("type", bx(type_)), ("q", bx(q))],
                    None,
                )?;
                crate::glue::take_ret::<()>(r)
            }
            $($async_)? fn auth_cookie(&self, auth_: BearerToken, p: String) -> Result<Option<String>, Error> {
                let r = self.enter(idx("ParamService", "authCookie"), vec![("auth_", bx(auth_)), ("p", bx(p))], None)?;
                crate::glue::take_ret::<Option<String>>(r)
            }
        }
    };
}
handler_impl!(MParamSrv,);
handler_impl!(MParamSrvAsync, async);

macro_rules! ret_handler_impl {
    ($trait_:ident, $($async_:ident)?) => {
        impl $trait_ for Handler {
            $($async_)? fn ret_string(&self) -> Result<String, Error> {
                crate::glue::take_ret::<String>(self.enter(idx("ReturnService", "retString"), vec![], None)?)
            }
            $($async_)? fn ret_node(&self) -> Result<sim_ir::Node, Error> {
                crate::glue::take_ret::<sim_ir::Node>(self.enter(idx("ReturnService", "retNode"), vec![], None)?)
            }
            $($async_)? fn ret_opt_string(&self) -> Result<Option<String>, Error> {
                crate::glue::take_ret::<Option<String>>(self.enter(idx("ReturnService", "retOptString"), vec![], None)?)
            }
            $($async_)? fn ret_list(&self) -> Result<Vec<sim_ir::Leaf>, Error> {
                crate::glue::take_ret::<Vec<sim_ir::Leaf>>(self.enter(idx("ReturnService", "retList"), vec![], None)?)
            }
        }
    };
}
ret_handler_impl!(MRetSrv,);
ret_handler_impl!(MRetSrvAsync, async);

pub fn endpoints_blocking(h: &Handler, rt: &Arc<ConjureRuntime>) -> Vec<SyncEp> {
    use conjure_http::server::Service;
    let mut v: Vec<SyncEp> = Vec::new();
    v.extend(MParamSrvEndpoints::new(h.clone()).endpoints(rt));
    v.extend(MRetSrvEndpoints::new(h.clone()).endpoints(rt));
    v
}

pub fn endpoints_async(h: &Handler, rt: &Arc<ConjureRuntime>) -> Vec<AsyncEp> {
    use conjure_http::server::AsyncService;
    let mut v: Vec<AsyncEp> = Vec::new();
    v.extend(MParamSrvAsyncEndpoints::new(h.clone()).endpoints(rt));
    v.extend(MRetSrvAsyncEndpoints::new(h.clone()).endpoints(rt));
    v
}

#[derive(Clone, Copy, Debug, PartialEq, Eq)]
pub enum ClientKind {
    Generated,
    Macro,
    Smile,
}

pub fn macro_client_covers(ep: usize) -> bool {
    let m = &ir().eps[ep];
    matches!(
        (m.service.as_str(), m.name.as_str()),
        ("ParamService", "pathMixed")
            | ("ParamService", "queryMixed")
            | ("ParamService", "headerMixed")
            | ("ParamService", "authCookie")
            | ("ReturnService", "retNone")
            | ("ReturnService", "retString")
            | ("ReturnService", "retNode")
            | ("ReturnService", "retOptString")
            | ("ReturnService", "retList")
            | ("BodyService", "bodyNode")
            | ("MacroOnly", "segments")
    )
}

pub fn smile_client_covers(ep: usize) -> bool {
    let m = &ir().eps[ep];
    matches!(
        (m.service.as_str(), m.name.as_str()),
        ("ReturnService", "retNode") | ("ReturnService", "retKeys") | ("ReturnService", "retDouble") | ("BodyService", "bodyNode") | ("BodyService", "bodyKeys")
    )
}

fn opt_str(v: &Option<String>) -> Option<&str> {
    v.as_deref()
}

pub fn call_blocking(tr: &SimTransport, kind: ClientKind, ep: usize, args: &[ArgVal]) -> Result<Box<dyn DynVal>, Error> {
    let m = &ir().eps[ep];
    match (kind, m.service.as_str(), m.name.as_str()) {
        (ClientKind::Macro, "ParamService", "pathMixed") => MParamClient::new(tr.clone()).path_mixed(args[0].get::<String>(), *args[1].get::<i32>()).map(bx),
        (ClientKind::Macro, "ParamService", "queryMixed") => MParamClient::new(tr.clone())
            .query_mixed(args[0].get::<String>(), opt_str(args[1].get()), args[2].get::<String>(), args[3].get::<Vec<String>>(), args[4].get())
            .map(bx),
        (ClientKind::Macro, "ParamService", "headerMixed") => MParamClient::new(tr.clone())
            .header_mixed(args[0].get(), *args[1].get::<i32>(), *args[2].get::<i32>(), opt_str(args[3].get()), *args[4].get::<Option<i32>>())
            .map(bx),
        (ClientKind::Macro, "ParamService", "authCookie") => MParamClient::new(tr.clone()).auth_cookie(args[0].get(), args[1].get::<String>()).map(bx),
        (ClientKind::Macro, "ReturnService", "retNone") => MRetClient::new(tr.clone()).ret_none().map(bx),
        (ClientKind::Macro, "ReturnService", "retString") => MRetClient::new(tr.clone()).ret_string().map(bx),
        (ClientKind::Macro, "ReturnService", "retNode") => MRetClient::new(tr.clone()).ret_node().map(bx),
        (ClientKind::Macro, "ReturnService", "retOptString") => MRetClient::new(tr.clone()).ret_opt_string().map(bx),
        (ClientKind::Macro, "ReturnService", "retList") => MRetClient::new(tr.clone()).ret_list().map(bx),
        (ClientKind::Macro, "BodyService", "bodyNode") => MBodyClient::new(tr.clone()).body_node(args[0].get()).map(bx),
        (_, "MacroOnly", "segments") => MOnlyClient::new(tr.clone()).segments(args[0].get::<String>(), *args[1].get::<i32>(), args[2].get::<Vec<String>>(), args[3].get::<Vec<i32>>(), *args[4].get::<Option<i32>>(), *args[5].get::<Option<i32>>()).map(bx),
        (ClientKind::Smile, "ReturnService", "retNode") => SRetClient::new(tr.clone()).ret_node().map(bx),
        (ClientKind::Smile, "ReturnService", "retKeys") => SRetClient::new(tr.clone()).ret_keys().map(bx),
        (ClientKind::Smile, "ReturnService", "retDouble") => SRetClient::new(tr.clone()).ret_double().map(bx),
        (ClientKind::Smile, "BodyService", "bodyNode") => SBodyClient::new(tr.clone()).body_node(args[0].get()).map(bx),
        (ClientKind::Smile, "BodyService", "bodyKeys") => SBodyClient::new(tr.clone()).body_keys(args[0].get()).map(bx),
        _ => crate::glue_gen::call_blocking(tr, ep, args),
    }
}

pub async fn call_async(tr: &SimTransport, kind: ClientKind, ep: usize, args: &[ArgVal]) -> Result<Box<dyn DynVal>, Error> {
    let m = &ir().eps[ep];
    match (kind, m.service.as_str(), m.name.as_str()) {
        (ClientKind::Macro, "ParamService", "pathMixed") => MParamAsyncClient::new(tr.clone()).path_mixed(args[0].get::<String>(), *args[1].get::<i32>()).await.map(bx),
        (ClientKind::Macro, "ParamService", "queryMixed") => MParamAsyncClient::new(tr.clone())
            .query_mixed(args[0].get::<String>(), opt_str(args[1].get()), args[2].get::<String>(), args[3].get::<Vec<String>>(), args[4].get())
            .await
            .map(bx),
        (ClientKind::Macro, "ParamService", "headerMixed") => MParamAsyncClient::new(tr.clone())
            .header_mixed(args[0].get(), *args[1].get::<i32>(), *args[2].get::<i32>(), opt_str(args[3].get()), *args[4].get::<Option<i32>>())
            .await
            .map(bx),
        (ClientKind::Macro, "ParamService", "authCookie") => MParamAsyncClient::new(tr.clone()).auth_cookie(args[0].get(), args[1].get::<String>()).await.map(bx),
        (ClientKind::Macro, "ReturnService", "retNone") => MRetAsyncClient::new(tr.clone()).ret_none().await.map(bx),
        (ClientKind::Macro, "ReturnService", "retString") => MRetAsyncClient::new(tr.clone()).ret_string().await.map(bx),
        (ClientKind::Macro, "ReturnService", "retNode") => MRetAsyncClient::new(tr.clone()).ret_node().await.map(bx),
        (ClientKind::Macro, "ReturnService", "retOptString") => MRetAsyncClient::new(tr.clone()).ret_opt_string().await.map(bx),
        (ClientKind::Macro, "ReturnService", "retList") => MRetAsyncClient::new(tr.clone()).ret_list().await.map(bx),
        (ClientKind::Macro, "BodyService", "bodyNode") => MBodyAsyncClient::new(tr.clone()).body_node(args[0].get()).await.map(bx),
        (_, "MacroOnly", "segments") => MOnlyAsyncClient::new(tr.clone()).segments(args[0].get::<String>(), *args[1].get::<i32>(), args[2].get::<Vec<String>>(), args[3].get::<Vec<i32>>(), *args[4].get::<Option<i32>>(), *args[5].get::<Option<i32>>()).await.map(bx),
        (ClientKind::Smile, "ReturnService", "retNode") => SRetAsyncClient::new(tr.clone()).ret_node().await.map(bx),
        (ClientKind::Smile, "ReturnService", "retKeys") => SRetAsyncClient::new(tr.clone()).ret_keys().await.map(bx),
        (ClientKind::Smile, "ReturnService", "retDouble") => SRetAsyncClient::new(tr.clone()).ret_double().await.map(bx),
        (ClientKind::Smile, "BodyService", "bodyNode") => SBodyAsyncClient::new(tr.clone()).body_node(args[0].get()).await.map(bx),
        (ClientKind::Smile, "BodyService", "bodyKeys") => SBodyAsyncClient::new(tr.clone()).body_keys(args[0].get()).await.map(bx),
        _ => crate::glue_gen::call_async(tr, ep, args).await,
    }
}

pub fn _unused(_: Pin<&mut ()>) {}
