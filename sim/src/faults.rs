//! Fault kinds and their injection into one request/response exchange.
//! Each fired fault is recorded with what it implies for the oracles.

use crate::body::{add_timing, draw_plan, BodyPlan, ChunkKnobs, Item, Step, WritePlan};
use crate::ctx::Ctx;
use crate::ir::{ir, Auth, Def, EpMeta, PKind, Prim, Ty};
use crate::judge;
use crate::tape::Tape;
use crate::transport::{WireReq, WireResp};
use serde_json::Value;

#[derive(Clone, Copy, Debug, PartialEq, Eq, PartialOrd, Ord, Hash)]
pub enum FK {
    // schedule / transparent
    Rechunk,
    Timing,
    Pretty,
    SmileReencode,
    CtParams,
    TrailingWs,
    LeadingWs,
    ShortWrite,
    Retry,
    // request body damage
    StreamError,
    Truncate,
    TrailingGarbage,
    TrailingSecondDoc,
    CtDrop,
    CtUnregistered,
    CtLabelSwap,
    Oversize,
    UnknownField,
    TypeConfusion,
    WrongDocument,
    UnionReorder,
    UnionMismatch,
    NumberOutOfRange,
    MissingField,
    LeafCorrupt,
    QuerySpelling,
    ByteFlip,
    // parameters
    ParamDrop,
    ParamDup,
    ParamCorrupt,
    ParamOpaque,
    AuthDrop,
    AuthCorrupt,
    // response
    StatusFlip,
}

impl FK {
    pub fn name(self) -> &'static str {
        match self {
            FK::Rechunk => "rechunk",
            FK::Timing => "timing",
            FK::Pretty => "pretty",
            FK::SmileReencode => "smile_reencode",
            FK::CtParams => "content_type_params",
            FK::TrailingWs => "trailing_ws",
            FK::LeadingWs => "leading_ws",
            FK::ShortWrite => "short_write",
            FK::Retry => "retry",
            FK::StreamError => "stream_error",
            FK::Truncate => "truncate",
            FK::TrailingGarbage => "trailing_garbage",
            FK::TrailingSecondDoc => "trailing_second_doc",
            FK::CtDrop => "content_type_drop",
            FK::CtUnregistered => "content_type_unregistered",
            FK::CtLabelSwap => "content_type_label_swap",
            FK::Oversize => "oversize",
            FK::UnknownField => "unknown_field",
            FK::TypeConfusion => "type_confusion",
            FK::WrongDocument => "wrong_document",
            FK::UnionReorder => "union_reorder",
            FK::UnionMismatch => "union_mismatch",
            FK::NumberOutOfRange => "number_out_of_range",
            FK::MissingField => "missing_field",
            FK::LeafCorrupt => "leaf_corrupt",
            FK::QuerySpelling => "query_spelling",
            FK::ByteFlip => "byte_flip",
            FK::ParamDrop => "param_drop",
            FK::ParamDup => "param_dup",
            FK::ParamCorrupt => "param_corrupt",
            FK::ParamOpaque => "param_opaque",
            FK::AuthDrop => "auth_drop",
            FK::AuthCorrupt => "auth_corrupt",
            FK::StatusFlip => "status_flip",
        }
    }

    pub fn transparent(self) -> bool {
        matches!(
            self,
            FK::Rechunk
                | FK::Timing
                | FK::Pretty
                | FK::SmileReencode
                | FK::CtParams
                | FK::TrailingWs
                | FK::LeadingWs
                | FK::ShortWrite
                | FK::Retry
                | FK::UnionReorder
                | FK::QuerySpelling
        )
    }
}

/// What a fired fault obliges the outcome to be.
#[derive(Clone, Debug, PartialEq)]
pub enum Expect {
    /// must not change the outcome
    Transparent,
    /// the request must be refused: allowed (code, param) pairs
    Reject { code: &'static str, param: Option<String> },
    /// decided by the judge on the final bytes
    Judge,
    /// the statement does not say
    DontCare,
}

#[derive(Clone, Debug)]
pub struct Fired {
    pub kind: FK,
    pub detail: String,
    pub expect: Expect,
}

impl Fired {
    pub fn describe(&self) -> String {
        format!("{}({})", self.kind.name(), self.detail)
    }
}

/// A fault fixed in advance by an enumeration driver.
#[derive(Clone, Debug)]
pub enum Forced {
    /// deliver the body with exactly these cut points
    Cuts(Vec<usize>),
    /// deliver this chunking and fail at chunk index k (k == chunks: after the last byte)
    FailAt(Vec<usize>, usize),
    /// clean end of stream after k bytes
    TruncateAt(usize),
    /// single content edits
    Kind(FK),
}

#[derive(Clone, Debug, Default)]
pub struct CallPlan {
    /// request-direction fault kinds enabled for this call
    pub enabled: Vec<FK>,
    /// response-direction fault kinds enabled for this call
    pub enabled_resp: Vec<FK>,
    pub in_response: bool,
    /// probability (out of 16) that a faultable step draws a fault at all
    pub rate16: u64,
    pub max_faults: u32,
    pub fired_count: u32,
    pub forced_req: Option<Forced>,
    pub forced_resp: Option<Forced>,
    pub chunk_req: Option<ChunkKnobs>,
    pub chunk_resp: Option<ChunkKnobs>,
    pub writer_pend_every: u8,
    pub write_faults: bool,
    pub retry: bool,
    /// the request body value re-encoded as Smile by the real serializer
    pub alt_smile_body: Option<Vec<u8>>,
    pub alpha: String,
    pub digits: u32,
    pub next_marker: u32,
}

impl CallPlan {
    pub fn on(&self, k: FK) -> bool {
        if self.in_response {
            self.enabled_resp.contains(&k)
        } else {
            self.enabled.contains(&k)
        }
    }

    fn want(&mut self, ctx: &Ctx, k: FK) -> bool {
        if !self.on(k) || self.fired_count >= self.max_faults {
            return false;
        }
        ctx.chance(self.rate16, 16)
    }

    fn marker(&mut self) -> u32 {
        self.next_marker += 1;
        self.next_marker
    }
}

fn fire(ctx: &Ctx, plan: &mut CallPlan, fired: &mut Vec<Fired>, kind: FK, detail: String, expect: Expect) {
    if !kind.transparent() {
        plan.fired_count += 1;
    }
    ctx.count(fault_counter(kind));
    fired.push(Fired { kind, detail, expect });
}

fn fault_counter(k: FK) -> &'static str {
    match k {
        FK::Rechunk => "fault.rechunk_fired",
        FK::Timing => "fault.timing_fired",
        FK::Pretty => "fault.pretty_fired",
        FK::SmileReencode => "fault.smile_reencode_fired",
        FK::CtParams => "fault.content_type_params_fired",
        FK::TrailingWs => "fault.trailing_ws_fired",
        FK::LeadingWs => "fault.leading_ws_fired",
        FK::ShortWrite => "fault.short_write_plan",
        FK::Retry => "fault.retry_plan",
        FK::StreamError => "fault.stream_error_fired",
        FK::Truncate => "fault.truncate_fired",
        FK::TrailingGarbage => "fault.trailing_garbage_fired",
        FK::TrailingSecondDoc => "fault.trailing_second_doc_fired",
        FK::CtDrop => "fault.content_type_drop_fired",
        FK::CtUnregistered => "fault.content_type_unregistered_fired",
        FK::CtLabelSwap => "fault.content_type_label_swap_fired",
        FK::Oversize => "fault.oversize_fired",
        FK::UnknownField => "fault.unknown_field_fired",
        FK::TypeConfusion => "fault.type_confusion_fired",
        FK::WrongDocument => "fault.wrong_document_fired",
        FK::UnionReorder => "fault.union_reorder_fired",
        FK::UnionMismatch => "fault.union_mismatch_fired",
        FK::NumberOutOfRange => "fault.number_out_of_range_fired",
        FK::MissingField => "fault.missing_field_fired",
        FK::LeafCorrupt => "fault.leaf_corrupt_fired",
        FK::QuerySpelling => "fault.query_spelling_fired",
        FK::ByteFlip => "fault.byte_flip_fired",
        FK::ParamDrop => "fault.param_drop_fired",
        FK::ParamDup => "fault.param_dup_fired",
        FK::ParamCorrupt => "fault.param_corrupt_fired",
        FK::ParamOpaque => "fault.param_opaque_fired",
        FK::AuthDrop => "fault.auth_drop_fired",
        FK::AuthCorrupt => "fault.auth_corrupt_fired",
        FK::StatusFlip => "fault.status_flip_fired",
    }
}

pub fn request_write_plan(ctx: &Ctx, plan: &mut CallPlan) -> (WritePlan, bool) {
    let wp = if plan.write_faults {
        ctx.with_tape(|t| WritePlan::draw(t, false))
    } else {
        WritePlan::default()
    };
    let retry = plan.retry;
    (wp, retry)
}

pub fn response_write_plan(ctx: &Ctx, plan: &mut CallPlan) -> WritePlan {
    if plan.write_faults {
        ctx.with_tape(|t| WritePlan::draw(t, false))
    } else {
        WritePlan::default()
    }
}

const UNREGISTERED: &[&str] = &[
    "text/plain",
    "application/xml",
    "application/jsonx",
    "application/x-jackson-smile2",
    "application/json+xml",
    "application/json+json",
    "application/x-jackson-smile+json",
    "application/vnd.api+json",
    "application/json+xml; charset=utf-8",
    "text/json",
    "application/json/extra",
    "application /json",
    "json",
    "application/",
    "*/*",
    "application/*",
];

fn deliver_plan(ctx: &Ctx, bytes: &[u8], knobs: Option<ChunkKnobs>, fired: &mut Vec<Fired>) -> BodyPlan {
    match knobs {
        None => BodyPlan::whole(bytes),
        Some(k) => {
            let p = ctx.with_tape(|t| draw_plan(t, bytes, k));
            if p.chunk_count() >= 2 || p.steps.iter().any(|s| matches!(&s.item, Item::Chunk(b) if b.is_empty())) {
                ctx.count(fault_counter(FK::Rechunk));
                fired.push(Fired {
                    kind: FK::Rechunk,
                    detail: format!("{} chunks", p.chunk_count()),
                    expect: Expect::Transparent,
                });
            }
            if p.steps.iter().any(|s| s.delay > 0 || s.pendings > 0) || p.end_delay > 0 || p.end_pendings > 0 {
                ctx.count(fault_counter(FK::Timing));
                fired.push(Fired {
                    kind: FK::Timing,
                    detail: String::new(),
                    expect: Expect::Transparent,
                });
            }
            p
        }
    }
}

fn apply_forced_delivery(bytes: &[u8], f: &Forced, plan: &mut CallPlan, fired: &mut Vec<Fired>, ctx: &Ctx) -> Option<BodyPlan> {
    match f {
        Forced::Cuts(c) => {
            let p = BodyPlan::cuts(bytes, c);
            ctx.count(fault_counter(FK::Rechunk));
            fired.push(Fired {
                kind: FK::Rechunk,
                detail: format!("cuts {:?}", c),
                expect: Expect::Transparent,
            });
            Some(p)
        }
        Forced::FailAt(c, k) => {
            let mut p = BodyPlan::cuts(bytes, c);
            let id = plan.marker();
            let k = (*k).min(p.steps.len());
            p.steps.insert(
                k,
                Step {
                    delay: 0,
                    pendings: 0,
                    item: Item::Fail(id),
                },
            );
            ctx.count(fault_counter(FK::StreamError));
            fired.push(Fired {
                kind: FK::StreamError,
                detail: format!("#{} at step {} of cuts {:?}", id, k, c),
                expect: Expect::Judge,
            });
            Some(p)
        }
        Forced::TruncateAt(k) => {
            let k = (*k).min(bytes.len());
            ctx.count(fault_counter(FK::Truncate));
            fired.push(Fired {
                kind: FK::Truncate,
                detail: format!("at {} of {}", k, bytes.len()),
                expect: Expect::Judge,
            });
            Some(BodyPlan::whole(&bytes[..k]))
        }
        Forced::Kind(_) => None,
    }
}

/// Splices an unknown member into a randomly chosen *object* node (never a
/// map or a union wrapper) of a JSON document of IR type `ty`.
pub fn splice_unknown(t: &mut Tape, ty: &Ty, doc: &mut Value, name: &str) -> bool {
    splice_unknown_with(t, ty, doc, name, None)
}

/// Stands in for a value that `serde_json::Value` cannot hold; `raw_values` puts the text in.
pub const RAW_PLACEHOLDER: &str = "@@verif-raw-value@@";

/// Legal JSON values a value tree cannot express: numbers beyond f64 / u64, nesting beyond
/// serde_json's recursion limit, escapes of lone surrogates. Replaces every placeholder.
pub fn raw_values(t: &mut Tape, bytes: Vec<u8>) -> (Vec<u8>, Option<String>) {
    let needle = format!("\"{}\"", RAW_PLACEHOLDER);
    let text = String::from_utf8(bytes).expect("serde_json output is UTF-8");
    if !text.contains(&needle) {
        return (text.into_bytes(), None);
    }
    let deep = 129 + t.draw(200) as usize;
    let raw = match t.draw(10) {
        0 => "1e999".to_string(),
        1 => "-1E+999".to_string(),
        2 => "[0,{\"a\":[1e999]}]".to_string(),
        3 => format!("{}{}", "[".repeat(deep), "]".repeat(deep)),
        4 => format!("{}null{}", "{\"a\":".repeat(deep), "}".repeat(deep)),
        5 => "\"\\ud800\"".to_string(),
        6 => "{\"\\udc00x\":\"\\ud83d\"}".to_string(),
        7 => "123456789012345678901234567890123456789".to_string(),
        8 => "-0.0000000000000000000000000000000000000000000000000000000000000000000000001E-999".to_string(),
        _ => "[ 1 , \t\r\n{ } ]".to_string(),
    };
    let label = if raw.len() > 40 { format!("{}..({} bytes)", &raw[..20], raw.len()) } else { raw.clone() };
    (text.replace(&needle, &raw).into_bytes(), Some(label))
}

pub fn splice_unknown_with(t: &mut Tape, ty: &Ty, doc: &mut Value, name: &str, value: Option<Value>) -> bool {
    // collect object-node paths
    fn walk<'a>(ty: &'a Ty, v: &Value, path: &mut Vec<PathEl>, out: &mut Vec<Vec<PathEl>>) {
        let ir = ir();
        match ty {
            Ty::Prim(_) => {}
            Ty::Opt(i) => {
                if !v.is_null() {
                    walk(i, v, path, out)
                }
            }
            Ty::List(i) | Ty::Set(i) => {
                if let Value::Array(a) = v {
                    for (idx, x) in a.iter().enumerate() {
                        path.push(PathEl::Idx(idx));
                        walk(i, x, path, out);
                        path.pop();
                    }
                }
            }
            Ty::Map(_, vt) => {
                if let Value::Object(m) = v {
                    for (k, x) in m {
                        path.push(PathEl::Key(k.clone()));
                        walk(vt, x, path, out);
                        path.pop();
                    }
                }
            }
            Ty::Ref(n) => match &ir.defs[n] {
                Def::Alias(i, _) => walk(i, v, path, out),
                Def::Enum(_) => {}
                Def::Object(fields) => {
                    if let Value::Object(m) = v {
                        out.push(path.clone());
                        for (f, fty) in fields {
                            if let Some(x) = m.get(f) {
                                path.push(PathEl::Key(f.clone()));
                                walk(fty, x, path, out);
                                path.pop();
                            }
                        }
                    }
                }
                Def::Union(fields) => {
                    if let Value::Object(m) = v {
                        if let Some(Value::String(tag)) = m.get("type") {
                            if let Some((f, fty)) = fields.iter().find(|(f, _)| f == tag) {
                                if let Some(x) = m.get(f) {
                                    path.push(PathEl::Key(f.clone()));
                                    walk(fty, x, path, out);
                                    path.pop();
                                }
                            }
                        }
                    }
                }
            },
        }
    }
    let mut out = Vec::new();
    walk(ty, doc, &mut Vec::new(), &mut out);
    if out.is_empty() {
        return false;
    }
    let path = t.pick(&out).clone();
    let mut cur = doc;
    for el in &path {
        cur = match el {
            PathEl::Idx(i) => &mut cur[*i],
            PathEl::Key(k) => &mut cur[k.as_str()],
        };
    }
    let extra = if let Some(v) = value { v } else { match t.draw(7) {
        0 => Value::Null,
        1 => Value::from(1),
        2 => Value::String("NaN".into()),
        3 => Value::Array(vec![Value::from(1), Value::Null]),
        4 => serde_json::json!({"name": "x", "value": 1.5}),
        5 => Value::Bool(true),
        _ => Value::String(String::new()),
    } };
    if let Value::Object(m) = cur {
        m.insert(name.to_string(), extra);
        true
    } else {
        false
    }
}

/// Rewrites one union value of the document by hand (a value tree cannot choose member order).
/// `mismatch == false`: the same union, tag first or value first (both are the same JSON object).
/// `mismatch == true`: tag and member no longer name the same variant - another declared variant,
/// an unknown name on either side, or two different unknown names - in either order.
/// Returns the raw text to put in place of `RAW_PLACEHOLDER` and a label.
pub fn tamper_union(t: &mut Tape, ty: &Ty, doc: &mut Value, alpha: &str, mismatch: bool) -> Option<(String, String)> {
    fn walk(ty: &Ty, v: &Value, path: &mut Vec<PathEl>, out: &mut Vec<(Vec<PathEl>, Vec<String>)>) {
        let ir = ir();
        match ty {
            Ty::Prim(_) => {}
            Ty::Opt(i) => {
                if !v.is_null() {
                    walk(i, v, path, out)
                }
            }
            Ty::List(i) | Ty::Set(i) => {
                if let Value::Array(a) = v {
                    for (idx, x) in a.iter().enumerate() {
                        path.push(PathEl::Idx(idx));
                        walk(i, x, path, out);
                        path.pop();
                    }
                }
            }
            Ty::Map(_, vt) => {
                if let Value::Object(m) = v {
                    for (k, x) in m {
                        path.push(PathEl::Key(k.clone()));
                        walk(vt, x, path, out);
                        path.pop();
                    }
                }
            }
            Ty::Ref(n) => match &ir.defs[n] {
                Def::Alias(i, _) => walk(i, v, path, out),
                Def::Enum(_) => {}
                Def::Object(fields) => {
                    if let Value::Object(m) = v {
                        for (f, fty) in fields {
                            if let Some(x) = m.get(f) {
                                path.push(PathEl::Key(f.clone()));
                                walk(fty, x, path, out);
                                path.pop();
                            }
                        }
                    }
                }
                Def::Union(fields) => {
                    if let Value::Object(m) = v {
                        if let Some(Value::String(tag)) = m.get("type") {
                            if m.len() == 2 && m.contains_key(tag) {
                                out.push((path.clone(), fields.iter().map(|(f, _)| f.clone()).collect()));
                            }
                            if let Some((f, fty)) = fields.iter().find(|(f, _)| f == tag) {
                                if let Some(x) = m.get(f) {
                                    path.push(PathEl::Key(f.clone()));
                                    walk(fty, x, path, out);
                                    path.pop();
                                }
                            }
                        }
                    }
                }
            },
        }
    }
    let mut out = Vec::new();
    walk(ty, doc, &mut Vec::new(), &mut out);
    if out.is_empty() {
        return None;
    }
    let (path, declared) = t.pick(&out).clone();
    let mut cur = doc;
    for el in &path {
        cur = match el {
            PathEl::Idx(i) => &mut cur[*i],
            PathEl::Key(k) => &mut cur[k.as_str()],
        };
    }
    let tag = cur["type"].as_str()?.to_string();
    let member = cur.get(&tag)?.clone();
    let unknown = |t: &mut Tape, salt: &str| -> String {
        // names on both sides of "type" in sort order, never a declared one
        format!("{}{}{}", t.pick(&["aa", "zz", "Type", "type_"]), alpha, salt)
    };
    let mut type_key = "type".to_string();
    let (new_tag, new_member, what) = if !mismatch {
        (tag.clone(), tag.clone(), "same variant")
    } else {
        match t.draw(5) {
            4 => {
                // tag and member agree, but the discriminator is not spelled "type"
                type_key = t.pick(&["kind", "Type", "tpye", "type ", "@type", ""]).to_string();
                (tag.clone(), tag.clone(), "discriminator key misspelled")
            }
            0 if declared.len() > 1 => {
                let others: Vec<&String> = declared.iter().filter(|d| **d != tag).collect();
                (t.pick(&others).to_string(), tag.clone(), "tag names another declared variant")
            }
            1 => (unknown(t, ""), tag.clone(), "unknown tag, declared member"),
            2 => (tag.clone(), unknown(t, ""), "declared tag, unknown member"),
            _ => (unknown(t, "a"), unknown(t, "b"), "two different unknown names"),
        }
    };
    let value_first = t.chance(1, 2);
    let k_tag = serde_json::to_string(&new_tag).ok()?;
    let k_member = serde_json::to_string(&new_member).ok()?;
    let v_member = serde_json::to_string(&member).ok()?;
    let k_type = serde_json::to_string(&type_key).ok()?;
    let raw = if value_first {
        format!("{{{}:{},{}:{}}}", k_member, v_member, k_type, k_tag)
    } else {
        format!("{{{}:{},{}:{}}}", k_type, k_tag, k_member, v_member)
    };
    *cur = Value::String(RAW_PLACEHOLDER.into());
    Some((raw, format!("{}, {} (type={:?} member={:?})", what, if value_first { "value first" } else { "tag first" }, new_tag, new_member)))
}

/// Replaces one `integer` / `safelong` leaf of the document (found by walking the IR type) by an
/// integer just outside, or far outside, the type's range. Returns the raw text for the placeholder.
pub fn number_out_of_range(t: &mut Tape, ty: &Ty, doc: &mut Value) -> Option<(String, String)> {
    fn walk(ty: &Ty, v: &Value, path: &mut Vec<PathEl>, out: &mut Vec<(Vec<PathEl>, Prim)>) {
        let ir = ir();
        match ty {
            Ty::Prim(p @ (Prim::Integer | Prim::Safelong)) => {
                if v.is_number() {
                    out.push((path.clone(), *p));
                }
            }
            Ty::Prim(_) => {}
            Ty::Opt(i) => {
                if !v.is_null() {
                    walk(i, v, path, out)
                }
            }
            Ty::List(i) | Ty::Set(i) => {
                if let Value::Array(a) = v {
                    for (idx, x) in a.iter().enumerate() {
                        path.push(PathEl::Idx(idx));
                        walk(i, x, path, out);
                        path.pop();
                    }
                }
            }
            Ty::Map(_, vt) => {
                if let Value::Object(m) = v {
                    for (k, x) in m {
                        path.push(PathEl::Key(k.clone()));
                        walk(vt, x, path, out);
                        path.pop();
                    }
                }
            }
            Ty::Ref(n) => match &ir.defs[n] {
                Def::Alias(i, _) => walk(i, v, path, out),
                Def::Enum(_) => {}
                Def::Object(fields) => {
                    if let Value::Object(m) = v {
                        for (f, fty) in fields {
                            if let Some(x) = m.get(f) {
                                path.push(PathEl::Key(f.clone()));
                                walk(fty, x, path, out);
                                path.pop();
                            }
                        }
                    }
                }
                Def::Union(fields) => {
                    if let Value::Object(m) = v {
                        if let Some(Value::String(tag)) = m.get("type") {
                            if let Some((f, fty)) = fields.iter().find(|(f, _)| f == tag) {
                                if let Some(x) = m.get(f) {
                                    path.push(PathEl::Key(f.clone()));
                                    walk(fty, x, path, out);
                                    path.pop();
                                }
                            }
                        }
                    }
                }
            },
        }
    }
    let mut out = Vec::new();
    walk(ty, doc, &mut Vec::new(), &mut out);
    if out.is_empty() {
        return None;
    }
    let (path, prim) = t.pick(&out).clone();
    let raw: &str = match prim {
        Prim::Integer => *t.pick(&["2147483648", "-2147483649", "4294967296", "9007199254740992", "-9223372036854775808", "9223372036854775807", "18446744073709551615", "123456789012345678901234567890"]),
        _ => *t.pick(&[
            "9007199254740992",
            "-9007199254740992",
            "9007199254740993",
            "-9007199254740993",
            "9223372036854775807",
            "-9223372036854775808",
            "-9223372036854775807",
            "18446744073709551615",
            "-9223372036854775809",
            "123456789012345678901234567890",
        ]),
    };
    let mut cur = doc;
    for el in &path {
        cur = match el {
            PathEl::Idx(i) => &mut cur[*i],
            PathEl::Key(k) => &mut cur[k.as_str()],
        };
    }
    *cur = Value::String(RAW_PLACEHOLDER.into());
    Some((raw.to_string(), format!("{:?} leaf := {}", prim, raw)))
}

/// What an IR-guided walk can do to a document besides adding members.
pub enum Damage {
    /// remove a member the object type requires (not an optional, not a collection)
    MissingField,
    /// replace a uuid / rid / bearer token / datetime leaf by text that is not one
    LeafCorrupt,
}

pub fn damage_doc(t: &mut Tape, ty: &Ty, doc: &mut Value, what: Damage, alpha: &str) -> Option<String> {
    enum Site {
        Field(String),
        Leaf(Prim),
        EnumLeaf(String),
    }
    fn walk(ty: &Ty, v: &Value, path: &mut Vec<PathEl>, out: &mut Vec<(Vec<PathEl>, Site)>, fields_wanted: bool) {
        let ir = ir();
        match ty {
            Ty::Prim(p @ (Prim::Uuid | Prim::Rid | Prim::Bearertoken | Prim::Datetime)) => {
                if !fields_wanted && v.is_string() {
                    out.push((path.clone(), Site::Leaf(*p)));
                }
            }
            Ty::Prim(_) => {}
            Ty::Opt(i) => {
                if !v.is_null() {
                    walk(i, v, path, out, fields_wanted)
                }
            }
            Ty::List(i) | Ty::Set(i) => {
                if let Value::Array(a) = v {
                    for (idx, x) in a.iter().enumerate() {
                        path.push(PathEl::Idx(idx));
                        walk(i, x, path, out, fields_wanted);
                        path.pop();
                    }
                }
            }
            Ty::Map(_, vt) => {
                if let Value::Object(m) = v {
                    for (k, x) in m {
                        path.push(PathEl::Key(k.clone()));
                        walk(vt, x, path, out, fields_wanted);
                        path.pop();
                    }
                }
            }
            Ty::Ref(n) => match &ir.defs[n] {
                Def::Alias(i, _) => walk(i, v, path, out, fields_wanted),
                Def::Enum(_) => {
                    if !fields_wanted && v.is_string() {
                        out.push((path.clone(), Site::EnumLeaf(n.clone())));
                    }
                }
                Def::Object(fields) => {
                    if let Value::Object(m) = v {
                        for (f, fty) in fields {
                            if let Some(x) = m.get(f) {
                                let required = !matches!(ir.dealias(fty), Ty::Opt(_) | Ty::List(_) | Ty::Set(_) | Ty::Map(_, _));
                                if fields_wanted && required {
                                    out.push((path.clone(), Site::Field(f.clone())));
                                }
                                path.push(PathEl::Key(f.clone()));
                                walk(fty, x, path, out, fields_wanted);
                                path.pop();
                            }
                        }
                    }
                }
                Def::Union(fields) => {
                    if let Value::Object(m) = v {
                        if let Some(Value::String(tag)) = m.get("type") {
                            if let Some((f, fty)) = fields.iter().find(|(f, _)| f == tag) {
                                if let Some(x) = m.get(f) {
                                    path.push(PathEl::Key(f.clone()));
                                    walk(fty, x, path, out, fields_wanted);
                                    path.pop();
                                }
                            }
                        }
                    }
                }
            },
        }
    }
    let mut out = Vec::new();
    walk(ty, doc, &mut Vec::new(), &mut out, matches!(what, Damage::MissingField));
    if out.is_empty() {
        return None;
    }
    let i = t.draw(out.len() as u64) as usize;
    let (path, site) = out.swap_remove(i);
    let mut cur = doc;
    for el in &path {
        cur = match el {
            PathEl::Idx(i) => &mut cur[*i],
            PathEl::Key(k) => &mut cur[k.as_str()],
        };
    }
    match site {
        Site::Field(f) => {
            cur.as_object_mut()?.remove(&f)?;
            Some(format!("required member {:?} removed", f))
        }
        Site::Leaf(p) => {
            let bad = undecodable(t, &Ty::Prim(p), alpha)?;
            let label = format!("{:?} leaf := {:?}", p, bad);
            *cur = Value::String(bad);
            Some(label)
        }
        Site::EnumLeaf(n) => {
            // not an enum constant of any kind: lower case, blanks, punctuation
            let bad = undecodable(t, &Ty::Ref(n.clone()), alpha)?;
            let label = format!("enum {} leaf := {:?}", n, bad);
            *cur = Value::String(bad);
            Some(label)
        }
    }
}

/// Puts `raw` where the placeholder string stands.
pub fn substitute_raw(bytes: Vec<u8>, raw: &str) -> Vec<u8> {
    let needle = format!("\"{}\"", RAW_PLACEHOLDER);
    String::from_utf8(bytes).expect("serde_json output is UTF-8").replacen(&needle, raw, 1).into_bytes()
}

/// The name of an injected member: usually short, sometimes long, non-ASCII or in need of escaping.
pub fn unknown_name(ctx: &Ctx, alpha: &str) -> String {
    match ctx.draw(6) {
        0 => format!("extra{}{}", alpha, "é".repeat(10 + ctx.draw(60) as usize)),
        1 => format!("x{}{}", crate::ir::gen_string(&mut ctx.lock().tape, true, 120), alpha),
        2 => format!("extra\"{}\\\n", alpha),
        _ => format!("extra{}", alpha),
    }
}

/// Replaces one number / boolean leaf by a canary-carrying string: a well-formed
/// document that serde rejects with a message quoting the value.
pub fn confuse_json(t: &mut Tape, doc: &mut Value, text: &str) -> bool {
    fn count(v: &Value) -> usize {
        match v {
            Value::Number(_) | Value::Bool(_) => 1,
            Value::Array(a) => a.iter().map(count).sum(),
            Value::Object(o) => o.values().map(count).sum(),
            _ => 0,
        }
    }
    fn set(v: &mut Value, k: &mut usize, text: &str) -> bool {
        match v {
            Value::Number(_) | Value::Bool(_) => {
                if *k == 0 {
                    // an empty text stands for "the value's own spelling, as a string": "1.5", "true"
                    *v = Value::String(if text.is_empty() { v.to_string() } else { text.to_string() });
                    return true;
                }
                *k -= 1;
                false
            }
            Value::Array(a) => a.iter_mut().any(|x| set(x, k, text)),
            Value::Object(o) => o.values_mut().any(|x| set(x, k, text)),
            _ => false,
        }
    }
    let n = count(doc);
    if n == 0 {
        return false;
    }
    let mut k = t.draw(n as u64) as usize;
    set(doc, &mut k, text)
}

pub fn confuse_smile(t: &mut Tape, doc: &mut serde_smile::value::Value, text: &str) -> bool {
    use serde_smile::value::Value as S;
    fn count(v: &S) -> usize {
        match v {
            S::Integer(_) | S::Long(_) | S::Boolean(_) | S::Double(_) | S::Float(_) => 1,
            S::Array(a) => a.iter().map(count).sum(),
            S::Object(o) => o.values().map(count).sum(),
            _ => 0,
        }
    }
    fn set(v: &mut S, k: &mut usize, text: &str) -> bool {
        match v {
            S::Integer(_) | S::Long(_) | S::Boolean(_) | S::Double(_) | S::Float(_) => {
                if *k == 0 {
                    *v = S::String(text.to_string());
                    return true;
                }
                *k -= 1;
                false
            }
            S::Array(a) => a.iter_mut().any(|x| set(x, k, text)),
            S::Object(o) => o.values_mut().any(|x| set(x, k, text)),
            _ => false,
        }
    }
    let n = count(doc);
    if n == 0 {
        return false;
    }
    let mut k = t.draw(n as u64) as usize;
    set(doc, &mut k, text)
}

#[derive(Clone, Debug)]
pub enum PathEl {
    Idx(usize),
    Key(String),
}

/// Per-type catalogue of texts that cannot be decoded as the type.
fn undecodable(t: &mut Tape, ty: &Ty, alpha: &str) -> Option<String> {
    let ir = ir();
    let ty = match ir.dealias(ty) {
        Ty::Opt(i) | Ty::List(i) | Ty::Set(i) => ir.dealias(i),
        o => o,
    };
    // half of the time the canary's random letters come first: what a parser echoes about the text
    // (the first offending character, its position) then depends on the canary
    let tail = alpha.get(2..).unwrap_or(alpha).to_string();
    let first = t.chance(1, 2);
    let with = |s: &str| if first { format!("{}{}", tail, s) } else { format!("{}{}", s, alpha) };
    Some(match ty {
        Ty::Prim(Prim::String) | Ty::Prim(Prim::Any) | Ty::Prim(Prim::Binary) => return None,
        Ty::Prim(Prim::Integer) => match t.draw(6) {
            0 => with("zz"),
            1 => String::new(),
            2 => "1.5".into(),
            3 => "2147483648".into(),
            4 => " 1".into(),
            _ => with("12"),
        },
        Ty::Prim(Prim::Safelong) => match t.draw(5) {
            0 => with("zz"),
            1 => String::new(),
            2 => "9007199254740992".into(),
            3 => "-9007199254740992".into(),
            _ => "1e3".into(),
        },
        Ty::Prim(Prim::Double) => match t.draw(5) {
            0 => with("zz"),
            1 => String::new(),
            2 => "1,5".into(),
            3 => "--1".into(),
            _ => "0x10".into(),
        },
        Ty::Prim(Prim::Boolean) => match t.draw(5) {
            0 => "TRUE".into(),
            1 => String::new(),
            2 => "1".into(),
            3 => "yes".into(),
            _ => with("tru"),
        },
        Ty::Prim(Prim::Uuid) => match t.draw(4) {
            0 => with("zz"),
            1 => String::new(),
            2 => "00000000-0000-0000-0000-00000000000".into(),
            _ => "g0000000-0000-0000-0000-000000000000".into(),
        },
        Ty::Prim(Prim::Rid) => match t.draw(8) {
            0 => with("zz"),
            1 => String::new(),
            2 => "ri.a.b.c".into(),
            3 => "ri.A.b.c.d".into(),
            4 => "ri.a.b.c.".into(),
            // a whole identifier with something after it, or before it
            5 => format!("ri.a.b.c.d!{}", alpha),
            6 => format!("ri.a.b.c.loc {}", alpha),
            _ => format!("{} ri.a.b.c.d", alpha),
        },
        Ty::Prim(Prim::Bearertoken) => match t.draw(7) {
            0 => String::new(),
            1 => "a b".into(),
            2 => "=".into(),
            3 => format!("={}", alpha),
            4 => format!("=={}==", alpha),
            5 => format!("{}={}", alpha, alpha),
            _ => format!("{}!", alpha),
        },
        Ty::Prim(Prim::Datetime) => match t.draw(5) {
            0 => with("zz"),
            1 => String::new(),
            2 => "2020-01-01".into(),
            3 => "2020-13-01T00:00:00Z".into(),
            _ => "2020-01-01T00:00:00".into(),
        },
        Ty::Ref(n) => match &ir.defs[n] {
            Def::Enum(values) => match t.draw(4) {
                0 => values[0].to_lowercase(),
                1 => String::new(),
                2 => "RED GREEN".into(),
                _ => format!("{}-x", alpha),
            },
            _ => return None,
        },
        _ => return None,
    })
}

fn pct(s: &str) -> String {
    // the harness's own strict encoder for replacement texts (everything but unreserved)
    let mut o = String::new();
    for b in s.bytes() {
        if b.is_ascii_alphanumeric() || b"-._~".contains(&b) {
            o.push(b as char);
        } else {
            o.push_str(&format!("%{:02X}", b));
        }
    }
    o
}

fn split_uri(uri: &str) -> (String, Vec<(String, String)>) {
    match uri.split_once('?') {
        None => (uri.to_string(), vec![]),
        Some((p, q)) => (
            p.to_string(),
            q.split('&')
                .filter(|s| !s.is_empty())
                .map(|kv| match kv.split_once('=') {
                    Some((k, v)) => (k.to_string(), v.to_string()),
                    None => (kv.to_string(), String::new()),
                })
                .collect(),
        ),
    }
}

fn join_uri(path: &str, q: &[(String, String)]) -> String {
    if q.is_empty() {
        path.to_string()
    } else {
        format!(
            "{}?{}",
            path,
            q.iter().map(|(k, v)| format!("{}={}", k, v)).collect::<Vec<_>>().join("&")
        )
    }
}

fn param_faults(ctx: &Ctx, plan: &mut CallPlan, ep: &EpMeta, wire: &mut WireReq, fired: &mut Vec<Fired>) {
    let irx = ir();
    let alpha = plan.alpha.clone();
    // ---- auth
    let (auth_header, prefix) = match &ep.auth {
        Auth::None => (None, String::new()),
        Auth::Header => (Some("authorization"), "Bearer ".to_string()),
        Auth::Cookie(n) => (Some("cookie"), format!("{}=", n)),
    };
    if let Some(h) = auth_header {
        if plan.want(ctx, FK::AuthDrop) {
            wire.remove_header(h);
            fire(
                ctx,
                plan,
                fired,
                FK::AuthDrop,
                h.to_string(),
                Expect::Reject {
                    code: "PermissionDenied",
                    param: None,
                },
            );
        } else if plan.want(ctx, FK::AuthCorrupt) {
            let tok = format!("tok{}", alpha);
            // the token the client actually sent (it carries the run's canary)
            let sent_tok: String = wire
                .header(h)
                .and_then(|v| std::str::from_utf8(v).ok())
                .and_then(|v| v.strip_prefix(prefix.as_str()))
                .unwrap_or(&tok)
                .to_string();
            let (v, what): (Vec<u8>, &str) = match ctx.draw(12) {
                // padding characters where the token grammar (token characters, then any number of
                // '=') does not allow them
                10 => (format!("{}={}", prefix, tok).into_bytes(), "padding before the token"),
                11 => (format!("{}{}=={}", prefix, tok, alpha).into_bytes(), "padding inside the token"),
                0 => (format!("Basic {}", tok).into_bytes(), "wrong scheme"),
                1 => (format!("{}bad token{}!", prefix, alpha).into_bytes(), "invalid token characters"),
                2 => (prefix.trim_end().as_bytes().to_vec(), "empty token"),
                3 => (format!("other{}", prefix).into_bytes(), "wrong prefix"),
                4 => {
                    let mut b = format!("{}{}", prefix, tok).into_bytes();
                    b.push(0xe9);
                    (b, "opaque byte")
                }
                5 => (format!("{}{}", prefix.to_lowercase().replace("bearer ", "bearer  "), tok).into_bytes(), "case/spacing"),
                // the client forgot the scheme / cookie name: the raw credential alone
                6 => (sent_tok.clone().into_bytes(), "raw credential without prefix"),
                // the credential under another cookie name / scheme spelled without a space
                7 => (format!("TOKEN={}", sent_tok).into_bytes(), "credential under another name"),
                // another cookie first, the right one second
                8 => (format!("a={}; {}{}", alpha, prefix, sent_tok).into_bytes(), "credential not first"),
                _ => (format!("{}{} {}", prefix, sent_tok, alpha).into_bytes(), "credential followed by more text"),
            };
            // the last variant may coincide with a valid header for cookies; judge below
            let still_valid = std::str::from_utf8(&v)
                .ok()
                .and_then(|s| s.strip_prefix(prefix.as_str()))
                .map(judge::is_bearer_token)
                .unwrap_or(false);
            wire.set_header(h, &v);
            fire(
                ctx,
                plan,
                fired,
                FK::AuthCorrupt,
                what.to_string(),
                if still_valid || (what == "credential not first" && prefix != "Bearer ") {
                    // a Cookie header may legitimately carry other cookies first: the statement is silent
                    Expect::DontCare
                } else {
                    Expect::Reject {
                        code: "PermissionDenied",
                        param: None,
                    }
                },
            );
        }
    }
    // ---- path / query / header arguments
    let (path, mut query) = split_uri(&wire.uri);
    let mut segs: Vec<String> = path.split('/').map(|s| s.to_string()).collect();
    for a in &ep.args {
        let dealiased = irx.dealias(&a.ty);
        let optional = matches!(dealiased, Ty::Opt(_));
        let multi = matches!(dealiased, Ty::List(_) | Ty::Set(_));
        let reject = |p: &str| Expect::Reject {
            code: "InvalidArgument",
            param: Some(p.to_string()),
        };
        match a.kind {
            PKind::Body => {}
            PKind::Path => {
                if plan.want(ctx, FK::ParamCorrupt) {
                    if let Some(bad) = ctx.with_tape(|t| undecodable(t, &a.ty, &alpha)) {
                        // locate the segment from the template
                        let pos = ep
                            .segs
                            .iter()
                            .position(|s| matches!(s, crate::ir::Seg::Param(n) if n == &a.name));
                        if let Some(pos) = pos {
                            if pos + 1 < segs.len() && !bad.is_empty() {
                                segs[pos + 1] = pct(&bad);
                                fire(ctx, plan, fired, FK::ParamCorrupt, format!("path {}={:?}", a.name, bad), reject(&a.name));
                            }
                        }
                    }
                } else if plan.want(ctx, FK::ParamOpaque) {
                    // percent escapes that are not UTF-8 (no encoder of real strings produces them);
                    // the code decodes them lossily, on which the statement is silent for strings
                    let pos = ep
                        .segs
                        .iter()
                        .position(|s| matches!(s, crate::ir::Seg::Param(n) if n == &a.name));
                    if let Some(pos) = pos {
                        if pos + 1 < segs.len() {
                            let esc = ctx.with_tape(|t| *t.pick(&["%FF", "%C3", "%80", "%E2%82", "%F0%9F%98", "%ED%A0%80"]));
                            // (a declared-safe argument is recorded as it decodes: no canary in it)
                            let mark = if a.declared_safe() { "x".to_string() } else { alpha.clone() };
                            segs[pos + 1] = if ctx.chance(1, 2) { format!("{}{}", esc, mark) } else { format!("{}{}", mark, esc) };
                            let stringy = matches!(
                                match irx.dealias(&a.ty) {
                                    Ty::Opt(i) | Ty::List(i) | Ty::Set(i) => irx.dealias(i),
                                    o => o,
                                },
                                Ty::Prim(Prim::String) | Ty::Prim(Prim::Any) | Ty::Prim(Prim::Binary)
                            );
                            fire(ctx, plan, fired, FK::ParamOpaque, format!("path {}", a.name), if stringy { Expect::DontCare } else { reject(&a.name) });
                        }
                    }
                }
            }
            PKind::Query => {
                let key = pct_key(&a.param_id);
                let present = query.iter().filter(|(k, _)| *k == key).count();
                if present > 0 && !optional && !multi && plan.want(ctx, FK::ParamDrop) {
                    query.retain(|(k, _)| *k != key);
                    fire(ctx, plan, fired, FK::ParamDrop, format!("query {}", a.name), reject(&a.name));
                } else if present > 0 && !multi && plan.want(ctx, FK::ParamDup) {
                    let v = query.iter().find(|(k, _)| *k == key).unwrap().1.clone();
                    let at = ctx.draw(query.len() as u64 + 1) as usize;
                    query.insert(at, (key.clone(), v));
                    fire(ctx, plan, fired, FK::ParamDup, format!("query {}", a.name), reject(&a.name));
                } else if plan.want(ctx, FK::ParamCorrupt) {
                    if let Some(bad) = ctx.with_tape(|t| undecodable(t, &a.ty, &alpha)) {
                        if present > 0 {
                            let idxs: Vec<usize> = query.iter().enumerate().filter(|(_, (k, _))| *k == key).map(|(i, _)| i).collect();
                            let i = idxs[ctx.draw(idxs.len() as u64) as usize];
                            query[i].1 = pct(&bad);
                        } else {
                            query.push((key.clone(), pct(&bad)));
                        }
                        fire(ctx, plan, fired, FK::ParamCorrupt, format!("query {}={:?}", a.name, bad), reject(&a.name));
                    }
                } else if plan.want(ctx, FK::ParamOpaque) {
                    // invalid UTF-8 percent escapes: decoded lossily by the code; statement is silent
                    let v = format!("%FF%FE{}", if a.declared_safe() { "x" } else { alpha.as_str() });
                    if present > 0 {
                        let i = query.iter().position(|(k, _)| *k == key).unwrap();
                        query[i].1 = v;
                    } else {
                        query.push((key.clone(), v));
                    }
                    // lossy decoding yields U+FFFD text: certainly not a value of any non-string type
                    let stringy = matches!(
                        match irx.dealias(&a.ty) {
                            Ty::Opt(i) | Ty::List(i) | Ty::Set(i) => irx.dealias(i),
                            o => o,
                        },
                        Ty::Prim(Prim::String) | Ty::Prim(Prim::Any) | Ty::Prim(Prim::Binary)
                    );
                    fire(ctx, plan, fired, FK::ParamOpaque, format!("query {}", a.name), if stringy { Expect::DontCare } else { reject(&a.name) });
                }
            }
            PKind::Header => {
                let h = a.param_id.to_ascii_lowercase();
                let present = wire.headers.iter().filter(|(n, _)| *n == h).count();
                if present > 0 && !optional && plan.want(ctx, FK::ParamDrop) {
                    wire.remove_header(&h);
                    fire(ctx, plan, fired, FK::ParamDrop, format!("header {}", a.name), reject(&a.name));
                } else if present > 0 && plan.want(ctx, FK::ParamDup) {
                    let v = wire.header(&h).unwrap().to_vec();
                    wire.headers.push((h.clone(), v));
                    fire(ctx, plan, fired, FK::ParamDup, format!("header {}", a.name), reject(&a.name));
                } else if plan.want(ctx, FK::ParamCorrupt) {
                    if let Some(bad) = ctx.with_tape(|t| undecodable(t, &a.ty, &alpha)) {
                        if bad.bytes().all(|b| (0x20..0x7f).contains(&b)) && bad.trim() == bad {
                            wire.set_header(&h, bad.as_bytes());
                            fire(ctx, plan, fired, FK::ParamCorrupt, format!("header {}={:?}", a.name, bad), reject(&a.name));
                        }
                    }
                } else if plan.want(ctx, FK::ParamOpaque) {
                    // bytes >= 0x80 are legal header octets but not text
                    let mut v = format!("v{}", alpha).into_bytes();
                    v.push(0xe9);
                    v.push(0x80);
                    wire.set_header(&h, &v);
                    fire(ctx, plan, fired, FK::ParamOpaque, format!("header {}", a.name), reject(&a.name));
                }
            }
        }
    }
    // another client's spelling of the same query: characters a query component may carry
    // literally (RFC 3986 sub-delims, ':', '@', '/', '?') left unescaped. Only '&', '=', '+', '%'
    // and '#' mean something to an application/x-www-form-urlencoded parser.
    if !query.is_empty() && plan.want(ctx, FK::QuerySpelling) {
        let mut changed = 0;
        for (_, v) in query.iter_mut() {
            let mut out = String::with_capacity(v.len());
            let mut rest = v.as_str();
            while let Some(p) = rest.find('%') {
                out.push_str(&rest[..p]);
                let hex = rest.get(p + 1..p + 3).and_then(|h| u8::from_str_radix(h, 16).ok());
                match hex {
                    Some(c) if b";:@/?!$'()*,".contains(&c) => {
                        out.push(c as char);
                        changed += 1;
                        rest = &rest[p + 3..];
                    }
                    _ => {
                        out.push('%');
                        rest = &rest[p + 1..];
                    }
                }
            }
            out.push_str(rest);
            *v = out;
        }
        if changed > 0 {
            fire(ctx, plan, fired, FK::QuerySpelling, format!("{} characters left unescaped", changed), Expect::Transparent);
        }
    }
    wire.uri = join_uri(&segs.join("/"), &query);
}

/// query keys as the real client writes them (keys in sim-ir are unreserved apart from '-')
fn pct_key(k: &str) -> String {
    pct(k)
}

const JSON_CT: &[u8] = b"application/json";
const SMILE_CT: &[u8] = b"application/x-jackson-smile";

pub fn apply_request_faults(
    ctx: &Ctx,
    plan: &mut CallPlan,
    ep: Option<&EpMeta>,
    sent: &WireReq,
) -> (WireReq, BodyPlan, Vec<Fired>) {
    let mut wire = sent.clone();
    let mut fired = Vec::new();
    plan.in_response = false;
    if let Some(ep) = ep {
        param_faults(ctx, plan, ep, &mut wire, &mut fired);
    }
    let forced = plan.forced_req.take();
    let Some(mut bytes) = wire.body.clone() else {
        return (wire, BodyPlan::default(), fired);
    };
    let is_json = wire.header("content-type") == Some(JSON_CT);
    let body_ty = ep.and_then(|e| e.body_arg()).map(|a| a.ty.clone());
    let limit = ep.and_then(|e| e.limit);
    let forced_kind = match &forced {
        Some(Forced::Kind(k)) => Some(*k),
        _ => None,
    };
    let want = |plan: &mut CallPlan, k: FK| -> bool { forced_kind == Some(k) || (forced_kind.is_none() && forced.is_none() && plan.want(ctx, k)) };

    if is_json && !sent.streaming {
        // ---- content edits (value-preserving first)
        if want(plan, FK::SmileReencode) {
            if let Some(sm) = plan.alt_smile_body.clone() {
                bytes = sm;
                wire.set_header("content-type", SMILE_CT);
                fire(ctx, plan, &mut fired, FK::SmileReencode, format!("{}B", bytes.len()), Expect::Transparent);
            }
        }
        let still_json = wire.header("content-type") == Some(JSON_CT);
        if !still_json {
            // value-bearing damage of a Smile body: spliced / confused on the plain Smile tree
            if want(plan, FK::UnknownField) {
                if let (Some(ty), Ok(mut v)) = (&body_ty, serde_smile::from_slice::<serde_smile::value::Value>(&bytes)) {
                    let name = unknown_name(ctx, &plan.alpha);
                    if ctx.with_tape(|t| crate::pipe::splice_unknown_smile(t, ty, &mut v, &name)) {
                        bytes = serde_smile::to_vec(&v).unwrap();
                        ctx.count("probe.unknown_field_spliced_smile");
                        fire(ctx, plan, &mut fired, FK::UnknownField, name, Expect::Reject { code: "InvalidArgument", param: None });
                    }
                }
            } else if want(plan, FK::TypeConfusion) {
                if let Ok(mut v) = serde_smile::from_slice::<serde_smile::value::Value>(&bytes) {
                    let text = format!("tc{}", &plan.alpha);
                    if ctx.with_tape(|t| confuse_smile(t, &mut v, &text)) {
                        bytes = serde_smile::to_vec(&v).unwrap();
                        ctx.count("probe.type_confusion_smile");
                        fire(ctx, plan, &mut fired, FK::TypeConfusion, text, Expect::Reject { code: "InvalidArgument", param: None });
                    }
                }
            }
        }
        if still_json && want(plan, FK::TypeConfusion) {
            if let Ok(mut v) = serde_json::from_slice::<Value>(&bytes) {
                if serde_json::to_vec(&v).ok().as_deref() == Some(&bytes[..]) {
                    // a foreign text, or the number's / boolean's own spelling in quotes
                    let text = if ctx.chance(1, 3) { String::new() } else { format!("tc{}", &plan.alpha) };
                    if ctx.with_tape(|t| confuse_json(t, &mut v, &text)) {
                        bytes = serde_json::to_vec(&v).unwrap();
                        fire(ctx, plan, &mut fired, FK::TypeConfusion, text, Expect::Reject { code: "InvalidArgument", param: None });
                    }
                }
            }
        }
        if still_json && !fired.iter().any(|f| matches!(f.kind, FK::TypeConfusion)) {
            let kind = if want(plan, FK::MissingField) {
                Some(FK::MissingField)
            } else if want(plan, FK::LeafCorrupt) {
                Some(FK::LeafCorrupt)
            } else {
                None
            };
            if let (Some(kind), Some(ty), Ok(mut v)) = (kind, &body_ty, serde_json::from_slice::<Value>(&bytes)) {
                let what = if kind == FK::MissingField { Damage::MissingField } else { Damage::LeafCorrupt };
                if let Some(label) = ctx.with_tape(|t| damage_doc(t, ty, &mut v, what, &plan.alpha)) {
                    bytes = serde_json::to_vec(&v).unwrap();
                    fire(ctx, plan, &mut fired, kind, label, Expect::Reject { code: "InvalidArgument", param: None });
                }
            }
        }
        if still_json && !fired.iter().any(|f| matches!(f.kind, FK::TypeConfusion | FK::MissingField | FK::LeafCorrupt)) && want(plan, FK::NumberOutOfRange) {
            if let (Some(ty), Ok(mut v)) = (&body_ty, serde_json::from_slice::<Value>(&bytes)) {
                if let Some((raw, label)) = ctx.with_tape(|t| number_out_of_range(t, ty, &mut v)) {
                    bytes = substitute_raw(serde_json::to_vec(&v).unwrap(), &raw);
                    fire(ctx, plan, &mut fired, FK::NumberOutOfRange, label, Expect::Reject { code: "InvalidArgument", param: None });
                }
            }
        }
        if still_json && !fired.iter().any(|f| matches!(f.kind, FK::TypeConfusion | FK::NumberOutOfRange)) {
            let kind = if want(plan, FK::UnionMismatch) {
                Some(FK::UnionMismatch)
            } else if want(plan, FK::UnionReorder) {
                Some(FK::UnionReorder)
            } else {
                None
            };
            if let (Some(kind), Some(ty), Ok(mut v)) = (kind, &body_ty, serde_json::from_slice::<Value>(&bytes)) {
                // (no byte-for-byte check here: the real serializer writes the tag first, a value
                // tree sorts it last; the document is the same)
                {
                    if let Some((raw, label)) = ctx.with_tape(|t| tamper_union(t, ty, &mut v, &plan.alpha, kind == FK::UnionMismatch)) {
                        bytes = substitute_raw(serde_json::to_vec(&v).unwrap(), &raw);
                        let expect = if kind == FK::UnionMismatch { Expect::Reject { code: "InvalidArgument", param: None } } else { Expect::Transparent };
                        fire(ctx, plan, &mut fired, kind, label, expect);
                    }
                }
            }
        }
        if still_json && want(plan, FK::Pretty) {
            if let Ok(v) = serde_json::from_slice::<Value>(&bytes) {
                // only when plain re-serialisation is lossless for this document
                if serde_json::to_vec(&v).ok().as_deref() == Some(&bytes[..]) {
                    bytes = serde_json::to_vec_pretty(&v).unwrap();
                    fire(ctx, plan, &mut fired, FK::Pretty, String::new(), Expect::Transparent);
                }
            }
        }
        if still_json && want(plan, FK::UnknownField) {
            if let (Some(ty), Ok(mut v)) = (&body_ty, serde_json::from_slice::<Value>(&bytes)) {
                if serde_json::to_vec(&v).ok().as_deref() == Some(&bytes[..]) {
                    let name = unknown_name(ctx, &plan.alpha);
                    if ctx.with_tape(|t| splice_unknown(t, ty, &mut v, &name)) {
                        bytes = serde_json::to_vec(&v).unwrap();
                        ctx.count("probe.unknown_field_spliced");
                        fire(
                            ctx,
                            plan,
                            &mut fired,
                            FK::UnknownField,
                            name,
                            Expect::Reject {
                                code: "InvalidArgument",
                                param: None,
                            },
                        );
                    }
                }
            }
        }
        if still_json && want(plan, FK::LeadingWs) {
            let n = 1 + ctx.draw(4) as usize;
            let mut b = vec![b' '; n];
            if ctx.chance(1, 2) {
                b[0] = b'\n';
            }
            b.extend_from_slice(&bytes);
            bytes = b;
            fire(ctx, plan, &mut fired, FK::LeadingWs, format!("{}", n), Expect::Transparent);
        }
        if still_json && want(plan, FK::TrailingWs) {
            let n = 1 + ctx.draw(4) as usize;
            for i in 0..n {
                bytes.push(*[b' ', b'\n', b'\t', b'\r'].get(i % 4).unwrap());
            }
            fire(ctx, plan, &mut fired, FK::TrailingWs, format!("{}", n), Expect::Transparent);
        }
        if still_json && want(plan, FK::Oversize) {
            if let Some(limit) = limit {
                // pad with insignificant whitespace to a drawn size class
                let target = match ctx.draw(5) {
                    0 => limit.saturating_sub(1),
                    1 => limit,
                    2 => limit + 1,
                    3 => limit + 1 + ctx.draw(64) as usize,
                    _ => limit * 3,
                };
                if target >= bytes.len() {
                    let pad = target - bytes.len();
                    if ctx.chance(1, 2) {
                        let mut b = vec![b' '; pad];
                        b.extend_from_slice(&bytes);
                        bytes = b;
                    } else {
                        bytes.extend(std::iter::repeat(b' ').take(pad));
                    }
                    ctx.count(if target > limit { "probe.oversize_above_limit" } else { "probe.oversize_at_or_below_limit" });
                    fire(
                        ctx,
                        plan,
                        &mut fired,
                        FK::Oversize,
                        format!("{}B vs limit {}", target, limit),
                        Expect::Judge,
                    );
                }
            }
        }
    }
    let json_now = wire.header("content-type") == Some(JSON_CT);
    if json_now && !sent.streaming && !fired.iter().any(|f| matches!(f.kind, FK::UnknownField | FK::TypeConfusion | FK::UnionMismatch | FK::UnionReorder | FK::NumberOutOfRange | FK::MissingField | FK::LeafCorrupt)) && want(plan, FK::WrongDocument) {
        // a different, perfectly well-formed document
        let d: &[u8] = ctx.with_tape(|t| *t.pick(&[&b"null"[..], b"{}", b"[]", b"0", b"\"x\"", b"true", b"[null]", b"{\"type\":\"x\"}", b"1e999", b" null "]));
        bytes = d.to_vec();
        fire(ctx, plan, &mut fired, FK::WrongDocument, String::from_utf8_lossy(d).to_string(), Expect::Judge);
    }
    if !sent.streaming {
        if want(plan, FK::TrailingGarbage) {
            let g: &[u8] = ctx.with_tape(|t| *t.pick(&[&b" garbage"[..], b"x", b"}", b"]", b",", b"\0", b" 1", b"\"", b"//c"]));
            bytes.extend_from_slice(g);
            fire(ctx, plan, &mut fired, FK::TrailingGarbage, format!("{:?}", String::from_utf8_lossy(g)), Expect::Judge);
        } else if want(plan, FK::TrailingSecondDoc) {
            let second: Vec<u8> = if json_now {
                ctx.with_tape(|t| t.pick(&[&b"\"b\""[..], b"2", b"{}", b"[]", b"null", b" true"]).to_vec())
            } else {
                bytes.clone()
            };
            bytes.extend_from_slice(&second);
            fire(ctx, plan, &mut fired, FK::TrailingSecondDoc, format!("{}B", second.len()), Expect::Judge);
        }
        if want(plan, FK::ByteFlip) && !bytes.is_empty() {
            let i = ctx.draw(bytes.len() as u64) as usize;
            let bit = 1u8 << ctx.draw(8);
            bytes[i] ^= bit;
            fire(ctx, plan, &mut fired, FK::ByteFlip, format!("byte {} bit {:#x}", i, bit), Expect::Judge);
        }
    }
    // ---- content type
    if want(plan, FK::CtDrop) {
        wire.remove_header("content-type");
        fire(ctx, plan, &mut fired, FK::CtDrop, String::new(), Expect::Judge);
    } else if want(plan, FK::CtUnregistered) {
        if ctx.chance(1, 6) {
            // header bytes that are legal on the wire but not text
            let ct: &[u8] = ctx.with_tape(|t| *t.pick(&[&b"text/plain; note=\xc3\xa9"[..], b"application/json\xa0", b"application/json; t=\"caf\xe9\"", b"\xff\xfe"]));
            wire.set_header("content-type", ct);
            fire(ctx, plan, &mut fired, FK::CtUnregistered, format!("{:?}", String::from_utf8_lossy(ct)), Expect::Judge);
        } else {
            let ct = ctx.with_tape(|t| *t.pick(UNREGISTERED));
            wire.set_header("content-type", ct.as_bytes());
            fire(ctx, plan, &mut fired, FK::CtUnregistered, ct.to_string(), Expect::Judge);
        }
    } else if want(plan, FK::CtLabelSwap) && !sent.streaming {
        let now_json = wire.header("content-type") == Some(JSON_CT);
        wire.set_header("content-type", if now_json { SMILE_CT } else { JSON_CT });
        fire(ctx, plan, &mut fired, FK::CtLabelSwap, String::new(), Expect::Judge);
    } else if want(plan, FK::CtParams) && !sent.streaming {
        if let Some(ct) = wire.header("content-type").map(|c| c.to_vec()) {
            let suffix = ctx.with_tape(|t| *t.pick(&["; charset=utf-8", ";charset=UTF-8", "; q=0.5", "; a=b; c=\"d e\""]));
            let mut v = ct;
            v.extend_from_slice(suffix.as_bytes());
            // upper-casing the essence is also legal
            if ctx.chance(1, 4) {
                v = String::from_utf8_lossy(&v).replace("application", "Application").into_bytes();
            }
            wire.set_header("content-type", &v);
            fire(ctx, plan, &mut fired, FK::CtParams, String::from_utf8_lossy(&v).to_string(), Expect::Transparent);
        }
    }
    // content-length follows the bytes actually sent
    if wire.header("content-length").is_some() {
        wire.set_header("content-length", bytes.len().to_string().as_bytes());
    }
    // ---- delivery
    let mut body_plan = None;
    if let Some(f) = &forced {
        body_plan = apply_forced_delivery(&bytes, f, plan, &mut fired, ctx);
    }
    let mut body_plan = match body_plan {
        Some(p) => p,
        None => {
            if want(plan, FK::Truncate) && !bytes.is_empty() {
                let k = ctx.draw(bytes.len() as u64) as usize;
                bytes.truncate(k);
                fire(ctx, plan, &mut fired, FK::Truncate, format!("at {}", k), Expect::Judge);
            }
            deliver_plan(ctx, &bytes, plan.chunk_req, &mut fired)
        }
    };
    if forced.is_none() && plan.want(ctx, FK::StreamError) {
        let id = plan.marker();
        let k = ctx.draw(body_plan.steps.len() as u64 + 1) as usize;
        body_plan.steps.insert(
            k,
            Step {
                delay: 0,
                pendings: 0,
                item: Item::Fail(id),
            },
        );
        fire(ctx, plan, &mut fired, FK::StreamError, format!("#{} at step {}", id, k), Expect::Judge);
    }
    wire.body = Some(body_plan.total_bytes());
    (wire, body_plan, fired)
}

pub fn apply_response_faults(
    ctx: &Ctx,
    plan: &mut CallPlan,
    ep: Option<&EpMeta>,
    resp: &WireResp,
) -> (WireResp, BodyPlan, Vec<Fired>) {
    let mut wire = resp.clone();
    let mut fired = Vec::new();
    plan.in_response = true;
    let forced = plan.forced_resp.take();
    let forced_kind = match &forced {
        Some(Forced::Kind(k)) => Some(*k),
        _ => None,
    };
    let want = |plan: &mut CallPlan, k: FK| -> bool { forced_kind == Some(k) || (forced_kind.is_none() && forced.is_none() && plan.want(ctx, k)) };
    let mut bytes = wire.body.clone();
    let is_json = wire.header("content-type") == Some(JSON_CT);
    let ret_ty = ep.and_then(|e| e.returns.clone());
    if is_json && !resp.streaming {
        if want(plan, FK::Pretty) {
            if let Ok(v) = serde_json::from_slice::<Value>(&bytes) {
                if serde_json::to_vec(&v).ok().as_deref() == Some(&bytes[..]) {
                    bytes = serde_json::to_vec_pretty(&v).unwrap();
                    fire(ctx, plan, &mut fired, FK::Pretty, String::new(), Expect::Transparent);
                }
            }
        }
        if want(plan, FK::UnknownField) {
            if let (Some(ty), Ok(mut v)) = (&ret_ty, serde_json::from_slice::<Value>(&bytes)) {
                if serde_json::to_vec(&v).ok().as_deref() == Some(&bytes[..]) {
                    let name = unknown_name(ctx, &plan.alpha);
                    let raw = if ctx.chance(1, 3) { Some(Value::String(RAW_PLACEHOLDER.into())) } else { None };
                    if ctx.with_tape(|t| splice_unknown_with(t, ty, &mut v, &name, raw)) {
                        let (b, label) = ctx.with_tape(|t| raw_values(t, serde_json::to_vec(&v).unwrap()));
                        bytes = b;
                        ctx.count("probe.unknown_field_spliced");
                        if label.is_some() {
                            ctx.count("probe.unknown_field_raw_value");
                        }
                        // clients ignore unknown fields, whatever they hold
                        fire(ctx, plan, &mut fired, FK::UnknownField, format!("{} = {}", name, label.unwrap_or_default()), Expect::Transparent);
                    }
                }
            }
        }
        {
            let kind = if want(plan, FK::MissingField) {
                Some(FK::MissingField)
            } else if want(plan, FK::LeafCorrupt) {
                Some(FK::LeafCorrupt)
            } else {
                None
            };
            if let (Some(kind), Some(ty), Ok(mut v)) = (kind, &ret_ty, serde_json::from_slice::<Value>(&bytes)) {
                let what = if kind == FK::MissingField { Damage::MissingField } else { Damage::LeafCorrupt };
                if let Some(label) = ctx.with_tape(|t| damage_doc(t, ty, &mut v, what, &plan.alpha)) {
                    bytes = serde_json::to_vec(&v).unwrap();
                    fire(ctx, plan, &mut fired, kind, label, Expect::Reject { code: "InvalidArgument", param: None });
                }
            }
        }
        if !fired.iter().any(|f| matches!(f.kind, FK::MissingField | FK::LeafCorrupt)) && want(plan, FK::NumberOutOfRange) {
            if let (Some(ty), Ok(mut v)) = (&ret_ty, serde_json::from_slice::<Value>(&bytes)) {
                if let Some((raw, label)) = ctx.with_tape(|t| number_out_of_range(t, ty, &mut v)) {
                    bytes = substitute_raw(serde_json::to_vec(&v).unwrap(), &raw);
                    fire(ctx, plan, &mut fired, FK::NumberOutOfRange, label, Expect::Reject { code: "InvalidArgument", param: None });
                }
            }
        }
        if !fired.iter().any(|f| f.kind == FK::NumberOutOfRange) {
            let kind = if want(plan, FK::UnionMismatch) {
                Some(FK::UnionMismatch)
            } else if want(plan, FK::UnionReorder) {
                Some(FK::UnionReorder)
            } else {
                None
            };
            if let (Some(kind), Some(ty), Ok(mut v)) = (kind, &ret_ty, serde_json::from_slice::<Value>(&bytes)) {
                {
                    if let Some((raw, label)) = ctx.with_tape(|t| tamper_union(t, ty, &mut v, &plan.alpha, kind == FK::UnionMismatch)) {
                        bytes = substitute_raw(serde_json::to_vec(&v).unwrap(), &raw);
                        // a client, too, must refuse a union whose tag and member disagree
                        let expect = if kind == FK::UnionMismatch { Expect::Reject { code: "InvalidArgument", param: None } } else { Expect::Transparent };
                        fire(ctx, plan, &mut fired, kind, label, expect);
                    }
                }
            }
        }
        if want(plan, FK::TypeConfusion) {
            if let Ok(mut v) = serde_json::from_slice::<Value>(&bytes) {
                if serde_json::to_vec(&v).ok().as_deref() == Some(&bytes[..]) {
                    let text = if ctx.chance(1, 3) { String::new() } else { format!("tc{}", &plan.alpha) };
                    if ctx.with_tape(|t| confuse_json(t, &mut v, &text)) {
                        bytes = serde_json::to_vec(&v).unwrap();
                        fire(ctx, plan, &mut fired, FK::TypeConfusion, text, Expect::Judge);
                    }
                }
            }
        }
        if want(plan, FK::LeadingWs) {
            let mut b = vec![b' ', b'\n'];
            b.extend_from_slice(&bytes);
            bytes = b;
            fire(ctx, plan, &mut fired, FK::LeadingWs, "2".into(), Expect::Transparent);
        }
        if want(plan, FK::TrailingWs) {
            bytes.extend_from_slice(b" \n");
            fire(ctx, plan, &mut fired, FK::TrailingWs, "2".into(), Expect::Transparent);
        }
    }
    if is_json && !resp.streaming && wire.status != 204 && !fired.iter().any(|f| matches!(f.kind, FK::UnknownField | FK::TypeConfusion | FK::UnionMismatch | FK::UnionReorder | FK::NumberOutOfRange | FK::MissingField | FK::LeafCorrupt)) && want(plan, FK::WrongDocument) {
        let d: &[u8] = ctx.with_tape(|t| *t.pick(&[&b"null"[..], b"{}", b"[]", b"0", b"\"x\"", b"true", b"[null]", b"{\"type\":\"x\"}", b"1e999", b" null "]));
        bytes = d.to_vec();
        fire(ctx, plan, &mut fired, FK::WrongDocument, String::from_utf8_lossy(d).to_string(), Expect::Judge);
    }
    if !resp.streaming && wire.status != 204 {
        if want(plan, FK::TrailingGarbage) {
            let g: &[u8] = ctx.with_tape(|t| *t.pick(&[&b" garbage"[..], b"x", b"}", b"]", b",", b"\0", b" 1", b"\""]));
            bytes.extend_from_slice(g);
            fire(ctx, plan, &mut fired, FK::TrailingGarbage, format!("{:?}", String::from_utf8_lossy(g)), Expect::Judge);
        } else if want(plan, FK::TrailingSecondDoc) {
            let second: Vec<u8> = ctx.with_tape(|t| t.pick(&[&b"\"b\""[..], b"2", b"{}", b"[]", b"null"]).to_vec());
            bytes.extend_from_slice(&second);
            fire(ctx, plan, &mut fired, FK::TrailingSecondDoc, format!("{}B", second.len()), Expect::Judge);
        }
        if want(plan, FK::ByteFlip) && !bytes.is_empty() {
            let i = ctx.draw(bytes.len() as u64) as usize;
            let bit = 1u8 << ctx.draw(8);
            bytes[i] ^= bit;
            fire(ctx, plan, &mut fired, FK::ByteFlip, format!("byte {} bit {:#x}", i, bit), Expect::Judge);
        }
    }
    if wire.status != 204 {
        if want(plan, FK::CtDrop) {
            wire.remove_header("content-type");
            fire(ctx, plan, &mut fired, FK::CtDrop, String::new(), Expect::Judge);
        } else if want(plan, FK::CtUnregistered) {
            let ct = ctx.with_tape(|t| {
                *t.pick(&[
                    "text/plain",
                    "application/x-jackson-smile",
                    "application/octet-stream",
                    "application/json2",
                    "application/jso",
                    "text/json",
                ])
            });
            if ctx.chance(1, 6) {
                let ct: &[u8] = ctx.with_tape(|t| *t.pick(&[&b"text/html; charset=iso-8859-1; title=\"caf\xe9\""[..], b"application/octet-stream\xa0", b"application/json\xa0", b"text/plain; note=\xc3\xa9"]));
                wire.set_header("content-type", ct);
                fire(ctx, plan, &mut fired, FK::CtUnregistered, format!("{:?}", String::from_utf8_lossy(ct)), Expect::Judge);
            } else if wire.header("content-type") != Some(ct.as_bytes()) {
                wire.set_header("content-type", ct.as_bytes());
                fire(ctx, plan, &mut fired, FK::CtUnregistered, ct.to_string(), Expect::Judge);
            }
        } else if want(plan, FK::CtParams) {
            if let Some(ct) = wire.header("content-type").map(|c| c.to_vec()) {
                let mut v = ct;
                v.extend_from_slice(b"; charset=utf-8");
                wire.set_header("content-type", &v);
                // the statement does not say whether parameters are tolerated
                fire(ctx, plan, &mut fired, FK::CtParams, String::new(), Expect::DontCare);
            }
        }
    }
    if want(plan, FK::StatusFlip) {
        if wire.status == 204 {
            wire.status = 200;
        } else {
            // a 204 carries neither a body nor a Content-Type
            wire.status = 204;
            wire.remove_header("content-type");
            bytes.clear();
        }
        fire(ctx, plan, &mut fired, FK::StatusFlip, format!("-> {}", wire.status), Expect::Judge);
    }
    let mut body_plan = None;
    if let Some(f) = &forced {
        body_plan = apply_forced_delivery(&bytes, f, plan, &mut fired, ctx);
    }
    let mut body_plan = match body_plan {
        Some(p) => p,
        None => {
            if want(plan, FK::Truncate) && !bytes.is_empty() {
                let k = ctx.draw(bytes.len() as u64) as usize;
                bytes.truncate(k);
                fire(ctx, plan, &mut fired, FK::Truncate, format!("at {}", k), Expect::Judge);
            }
            deliver_plan(ctx, &bytes, plan.chunk_resp, &mut fired)
        }
    };
    if forced.is_none() && plan.want(ctx, FK::StreamError) {
        let id = plan.marker();
        let k = ctx.draw(body_plan.steps.len() as u64 + 1) as usize;
        body_plan.steps.insert(
            k,
            Step {
                delay: 0,
                pendings: 0,
                item: Item::Fail(id),
            },
        );
        fire(ctx, plan, &mut fired, FK::StreamError, format!("#{} at step {}", id, k), Expect::Judge);
    }
    if plan.chunk_resp.map(|c| c.timing).unwrap_or(false) && forced.is_some() {
        ctx.with_tape(|t| add_timing(t, &mut body_plan));
    }
    wire.body = body_plan.total_bytes();
    (wire, body_plan, fired)
}
