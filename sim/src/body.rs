//! Simulated bodies and writers: the "network" between the real client code
//! and the real server code.  A body is a pre-drawn plan of steps (chunk,
//! stream error, end) each with a delivery delay and a number of spurious
//! `Pending`s; it implements both `Iterator` (blocking flavour: the clock
//! jumps inline) and `Stream` (async flavour: timers on the shared scheduler).

use crate::ctx::Ctx;
use crate::tape::Tape;
use bytes::Bytes;
use conjure_error::Error;
use futures_core::Stream;
use std::collections::VecDeque;
use std::fmt;
use std::io;
use std::pin::Pin;
use std::task::{Context, Poll};

/// The body stream's own error: a unique marker the oracles look for.
#[derive(Debug, Clone, PartialEq, Eq)]
pub struct StreamMarker(pub u32);

impl fmt::Display for StreamMarker {
    fn fmt(&self, f: &mut fmt::Formatter<'_>) -> fmt::Result {
        write!(f, "simulated stream failure #{}", self.0)
    }
}

impl std::error::Error for StreamMarker {}

pub fn marker_error(id: u32) -> Error {
    Error::internal_safe(StreamMarker(id))
}

pub fn marker_of(e: &Error) -> Option<u32> {
    e.cause().downcast_ref::<StreamMarker>().map(|m| m.0)
}

#[derive(Clone, Debug)]
pub enum Item {
    Chunk(Bytes),
    Fail(u32),
}

#[derive(Clone, Debug)]
pub struct Step {
    pub delay: u64,
    pub pendings: u8,
    pub item: Item,
}

/// A delivery plan for one body.
#[derive(Clone, Debug, Default)]
pub struct BodyPlan {
    pub steps: Vec<Step>,
    /// delay / pendings before the end-of-stream is reported
    pub end_delay: u64,
    pub end_pendings: u8,
}

impl BodyPlan {
    pub fn whole(bytes: &[u8]) -> BodyPlan {
        let mut p = BodyPlan::default();
        if !bytes.is_empty() {
            p.steps.push(Step {
                delay: 0,
                pendings: 0,
                item: Item::Chunk(Bytes::copy_from_slice(bytes)),
            });
        }
        p
    }

    /// Chunks at explicit cut points (sorted offsets inside 0..=len; duplicates
    /// and 0 / len produce empty chunks).
    pub fn cuts(bytes: &[u8], cuts: &[usize]) -> BodyPlan {
        let mut p = BodyPlan::default();
        let mut prev = 0usize;
        for &c in cuts {
            let c = c.min(bytes.len()).max(prev);
            p.steps.push(Step {
                delay: 0,
                pendings: 0,
                item: Item::Chunk(Bytes::copy_from_slice(&bytes[prev..c])),
            });
            prev = c;
        }
        p.steps.push(Step {
            delay: 0,
            pendings: 0,
            item: Item::Chunk(Bytes::copy_from_slice(&bytes[prev..])),
        });
        p
    }

    pub fn total_bytes(&self) -> Vec<u8> {
        let mut v = Vec::new();
        for s in &self.steps {
            if let Item::Chunk(b) = &s.item {
                v.extend_from_slice(b);
            }
        }
        v
    }

    /// The bytes a reader sees before the first failure, and that failure.
    pub fn effective(&self) -> (Vec<u8>, Option<u32>) {
        let mut v = Vec::new();
        for s in &self.steps {
            match &s.item {
                Item::Chunk(b) => v.extend_from_slice(b),
                Item::Fail(id) => return (v, Some(*id)),
            }
        }
        (v, None)
    }

    pub fn chunk_count(&self) -> usize {
        self.steps
            .iter()
            .filter(|s| matches!(s.item, Item::Chunk(_)))
            .count()
    }

    pub fn has_fail(&self) -> bool {
        self.steps.iter().any(|s| matches!(s.item, Item::Fail(_)))
    }

    pub fn describe(&self) -> String {
        let mut s = String::new();
        for st in &self.steps {
            match &st.item {
                Item::Chunk(b) => s.push_str(&format!("[{}", b.len())),
                Item::Fail(id) => s.push_str(&format!("[!{}", id)),
            }
            if st.delay > 0 {
                s.push_str(&format!("@+{}", st.delay));
            }
            if st.pendings > 0 {
                s.push_str(&format!("p{}", st.pendings));
            }
            s.push(']');
        }
        if self.end_delay > 0 || self.end_pendings > 0 {
            s.push_str(&format!("[end@+{}p{}]", self.end_delay, self.end_pendings));
        }
        s
    }
}

/// Knobs for drawing a chunking / timing of a byte string.
#[derive(Clone, Copy, Debug)]
pub struct ChunkKnobs {
    /// 0 whole, 1 one-byte chunks, 2 small, 3 geometric
    pub style: u8,
    pub empty_chunks: bool,
    pub timing: bool,
}

impl ChunkKnobs {
    pub fn draw(t: &mut Tape) -> ChunkKnobs {
        ChunkKnobs {
            style: t.draw(4) as u8,
            empty_chunks: t.chance(1, 3),
            timing: t.chance(1, 2),
        }
    }
    pub const WHOLE: ChunkKnobs = ChunkKnobs {
        style: 0,
        empty_chunks: false,
        timing: false,
    };
}

pub fn draw_plan(t: &mut Tape, bytes: &[u8], k: ChunkKnobs) -> BodyPlan {
    let mut p = BodyPlan::default();
    let n = bytes.len();
    let mut pos = 0usize;
    let mut first = true;
    loop {
        if k.empty_chunks && t.chance(1, 6) {
            p.steps.push(Step {
                delay: 0,
                pendings: 0,
                item: Item::Chunk(Bytes::new()),
            });
        }
        if pos >= n {
            break;
        }
        let len = match k.style {
            0 => n - pos,
            1 => {
                if n > 64 && !first {
                    // keep 1-byte style affordable on big bodies
                    1 + t.draw(((n - pos) as u64).min(64)) as usize
                } else {
                    1
                }
            }
            2 => 1 + t.draw(((n - pos) as u64).min(7)) as usize,
            _ => {
                let r = t.draw(4);
                let cap = match r {
                    0 => 2,
                    1 => 16,
                    2 => 256,
                    _ => n as u64,
                };
                1 + t.draw(((n - pos) as u64).min(cap)) as usize
            }
        };
        first = false;
        p.steps.push(Step {
            delay: 0,
            pendings: 0,
            item: Item::Chunk(Bytes::copy_from_slice(&bytes[pos..pos + len])),
        });
        pos += len;
    }
    if k.timing {
        add_timing(t, &mut p);
    }
    p
}

pub fn add_timing(t: &mut Tape, p: &mut BodyPlan) {
    for s in &mut p.steps {
        if t.chance(1, 3) {
            s.delay = 1 + t.draw(1_000_000);
        }
        if t.chance(1, 4) {
            s.pendings = 1 + t.draw(2) as u8;
        }
    }
    if t.chance(1, 3) {
        p.end_delay = 1 + t.draw(1_000_000);
    }
    if t.chance(1, 4) {
        p.end_pendings = 1;
    }
}

pub struct SimBody {
    ctx: Ctx,
    steps: VecDeque<Step>,
    end_delay: u64,
    end_pendings: u8,
    /// absolute due time and timer id of the front step once armed
    armed: Option<(u64, u64)>,
    done: bool,
    pub id: u32,
    /// polls after the end / after an error (a fused reader never does that)
    pub polls: u32,
}

impl fmt::Debug for SimBody {
    fn fmt(&self, f: &mut fmt::Formatter<'_>) -> fmt::Result {
        write!(f, "SimBody#{}", self.id)
    }
}

impl SimBody {
    pub fn new(ctx: &Ctx, id: u32, plan: BodyPlan) -> SimBody {
        SimBody {
            ctx: ctx.clone(),
            steps: plan.steps.into(),
            end_delay: plan.end_delay,
            end_pendings: plan.end_pendings,
            armed: None,
            done: false,
            id,
            polls: 0,
        }
    }

    pub fn empty(ctx: &Ctx, id: u32) -> SimBody {
        SimBody::new(ctx, id, BodyPlan::default())
    }

    /// Drains the body the way a careful consumer would; returns the bytes
    /// and the error, if any.
    pub fn drain_blocking(&mut self) -> (Vec<u8>, Option<Error>) {
        let mut v = Vec::new();
        for item in self {
            match item {
                Ok(b) => v.extend_from_slice(&b),
                Err(e) => return (v, Some(e)),
            }
        }
        (v, None)
    }

    fn deliver(&mut self, item: Item) -> Option<Result<Bytes, Error>> {
        match item {
            Item::Chunk(b) => {
                self.ctx.count("body.chunk_delivered");
                if b.is_empty() {
                    self.ctx.count("body.empty_chunk_delivered");
                }
                Some(Ok(b))
            }
            Item::Fail(id) => {
                self.ctx.count("fault.stream_error_delivered");
                self.done = true;
                self.steps.clear();
                Some(Err(marker_error(id)))
            }
        }
    }
}

impl Iterator for SimBody {
    type Item = Result<Bytes, Error>;

    fn next(&mut self) -> Option<Self::Item> {
        crate::ctx::seam();
        self.polls += 1;
        if self.done {
            return None;
        }
        match self.steps.pop_front() {
            Some(step) => {
                if step.delay > 0 {
                    self.ctx.advance(step.delay);
                }
                self.deliver(step.item)
            }
            None => {
                if self.end_delay > 0 {
                    self.ctx.advance(self.end_delay);
                }
                self.done = true;
                None
            }
        }
    }
}

impl Stream for SimBody {
    type Item = Result<Bytes, Error>;

    fn poll_next(mut self: Pin<&mut Self>, cx: &mut Context<'_>) -> Poll<Option<Self::Item>> {
        let this = &mut *self;
        this.polls += 1;
        if this.done {
            return Poll::Ready(None);
        }
        let (delay, pendings) = match this.steps.front_mut() {
            Some(s) => (&mut s.delay, &mut s.pendings),
            None => (&mut this.end_delay, &mut this.end_pendings),
        };
        // timer phase
        if let Some((due, id)) = this.armed {
            let mut g = this.ctx.lock();
            if g.sched.now < due {
                g.sched.rearm(id, cx.waker().clone());
                *g.stats.entry("sched.pending_timer_repoll").or_insert(0) += 1;
                return Poll::Pending;
            }
            drop(g);
            this.armed = None;
        } else if *delay > 0 {
            let mut g = this.ctx.lock();
            let due = g.sched.now + *delay;
            let id = g.sched.timer(due, cx.waker().clone());
            *g.stats.entry("sched.pending_timer").or_insert(0) += 1;
            drop(g);
            *delay = 0;
            this.armed = Some((due, id));
            return Poll::Pending;
        }
        // spurious-pending phase: yield with an immediate self-wake
        if *pendings > 0 {
            *pendings -= 1;
            this.ctx.count("sched.pending_yield");
            cx.waker().wake_by_ref();
            return Poll::Pending;
        }
        match this.steps.pop_front() {
            Some(step) => Poll::Ready(this.deliver(step.item)),
            None => {
                this.done = true;
                Poll::Ready(None)
            }
        }
    }
}

// ---------------------------------------------------------------- writers --

/// Write-side schedule: how many bytes each `write` call accepts, EINTRs, and
/// an optional hard failure after `fail_at` bytes.
#[derive(Clone, Debug, Default)]
pub struct WritePlan {
    /// per-call accepted sizes, cycled; 0 entries mean EINTR
    pub quanta: Vec<u32>,
    pub fail_at: Option<usize>,
}

impl WritePlan {
    pub fn draw(t: &mut Tape, faults: bool) -> WritePlan {
        let mut p = WritePlan::default();
        if t.chance(1, 2) {
            let n = 1 + t.draw(4);
            for _ in 0..n {
                let q = match t.draw(6) {
                    0 => 0,
                    1 => 1,
                    2 => 2 + t.draw(6) as u32,
                    3 => 8 + t.draw(56) as u32,
                    _ => u32::MAX,
                };
                p.quanta.push(q);
            }
            if p.quanta.iter().all(|q| *q == 0) {
                p.quanta.push(1);
            }
        }
        if faults && t.chance(1, 8) {
            p.fail_at = Some(t.draw(64) as usize);
        }
        p
    }
}

/// A blocking `io::Write` sink with short writes, EINTR and hard failure.
pub struct SimWriter {
    pub buf: Vec<u8>,
    plan: WritePlan,
    calls: usize,
    pub eintr: u32,
    pub short: u32,
    pub failed: bool,
    pub flushes: u32,
}

impl SimWriter {
    pub fn new(plan: WritePlan) -> SimWriter {
        SimWriter {
            buf: Vec::new(),
            plan,
            calls: 0,
            eintr: 0,
            short: 0,
            failed: false,
            flushes: 0,
        }
    }
    pub fn plain() -> SimWriter {
        SimWriter::new(WritePlan::default())
    }
}

impl io::Write for SimWriter {
    fn write(&mut self, data: &[u8]) -> io::Result<usize> {
        if data.is_empty() {
            return Ok(0);
        }
        crate::ctx::seam();
        if let Some(at) = self.plan.fail_at {
            if self.buf.len() >= at {
                self.failed = true;
                return Err(io::Error::new(io::ErrorKind::BrokenPipe, "simulated write failure"));
            }
        }
        let q = if self.plan.quanta.is_empty() {
            u32::MAX
        } else {
            let q = self.plan.quanta[self.calls % self.plan.quanta.len()];
            self.calls += 1;
            q
        };
        if q == 0 {
            self.eintr += 1;
            return Err(io::Error::new(io::ErrorKind::Interrupted, "simulated EINTR"));
        }
        let mut n = data.len().min(q as usize);
        if let Some(at) = self.plan.fail_at {
            n = n.min(at - self.buf.len()).max(1).min(data.len());
        }
        if n < data.len() {
            self.short += 1;
        }
        self.buf.extend_from_slice(&data[..n]);
        Ok(n)
    }

    fn flush(&mut self) -> io::Result<()> {
        self.flushes += 1;
        Ok(())
    }
}

/// The async writer seam handed to `AsyncWriteBody` implementations.  It has
/// no tokio traits (none are available offline); the harness's own bodies
/// drive it through `poll_write`.
pub struct SimAsyncWriter {
    pub buf: Vec<u8>,
    ctx: Ctx,
    plan: WritePlan,
    calls: usize,
    /// poll indices (cycled) at which `poll_write` yields Pending first
    pub pend_every: u8,
    polls: u32,
    pub failed: bool,
}

impl SimAsyncWriter {
    pub fn new(ctx: &Ctx, plan: WritePlan, pend_every: u8) -> SimAsyncWriter {
        SimAsyncWriter {
            buf: Vec::new(),
            ctx: ctx.clone(),
            plan,
            calls: 0,
            pend_every,
            polls: 0,
            failed: false,
        }
    }

    pub fn poll_write(&mut self, cx: &mut Context<'_>, data: &[u8]) -> Poll<io::Result<usize>> {
        self.polls += 1;
        if self.pend_every > 0 && self.polls % (self.pend_every as u32 + 1) == 1 {
            self.ctx.count("sched.writer_pending");
            cx.waker().wake_by_ref();
            return Poll::Pending;
        }
        if let Some(at) = self.plan.fail_at {
            if self.buf.len() >= at {
                self.failed = true;
                return Poll::Ready(Err(io::Error::new(
                    io::ErrorKind::BrokenPipe,
                    "simulated write failure",
                )));
            }
        }
        let q = if self.plan.quanta.is_empty() {
            u32::MAX
        } else {
            let q = self.plan.quanta[self.calls % self.plan.quanta.len()];
            self.calls += 1;
            q.max(1)
        };
        let n = data.len().min(q as usize);
        self.buf.extend_from_slice(&data[..n]);
        Poll::Ready(Ok(n))
    }
}
