//! The simulated transport and router between the real client code and the
//! real server endpoints.  The wire is textual on purpose: the URI is rendered
//! to a string and re-parsed, headers are copied as bytes, bodies travel as
//! delivery plans — nothing structural can hide inside an `http` object.

use crate::body::{BodyPlan, SimAsyncWriter, SimBody, SimWriter, WritePlan};
use crate::ctx::Ctx;
use crate::faults::{self, CallPlan, Fired};
use crate::ir::{ir, EpMeta};
use crate::runner::guarded;
use bytes::Bytes;
use conjure_error::{Error, ErrorKind};
use conjure_http::client::{AsyncClient, AsyncRequestBody, AsyncWriteBody as _, Client, RequestBody};
use conjure_http::server::{
    AsyncEndpoint, AsyncResponseBody, AsyncWriteBody as _, BoxAsyncEndpoint, Endpoint, EndpointMetadata, PathSegment,
    ResponseBody,
};
use conjure_http::{PathParams, SafeParams};
use http::{HeaderName, HeaderValue, Request, Response, StatusCode};
use std::future::Future;
use std::pin::Pin;
use std::sync::{Arc, Mutex};
use std::task::{Context, Poll};

pub type SyncEp = Box<dyn Endpoint<SimBody, SimWriter> + Sync + Send>;
pub type AsyncEp = BoxAsyncEndpoint<'static, SimBody, SimAsyncWriter>;

#[derive(Clone, Debug)]
pub struct WireReq {
    pub method: String,
    pub uri: String,
    pub headers: Vec<(String, Vec<u8>)>,
    /// None = no body at all
    pub body: Option<Vec<u8>>,
    pub streaming: bool,
}

impl WireReq {
    pub fn header(&self, name: &str) -> Option<&[u8]> {
        self.headers
            .iter()
            .find(|(n, _)| n.eq_ignore_ascii_case(name))
            .map(|(_, v)| &v[..])
    }
    pub fn set_header(&mut self, name: &str, value: &[u8]) {
        self.headers.retain(|(n, _)| !n.eq_ignore_ascii_case(name));
        self.headers.push((name.to_ascii_lowercase(), value.to_vec()));
    }
    pub fn remove_header(&mut self, name: &str) {
        self.headers.retain(|(n, _)| !n.eq_ignore_ascii_case(name));
    }
}

#[derive(Clone, Debug)]
pub struct ErrSnap {
    pub is_service: bool,
    pub code: String,
    pub name: String,
    pub safe_params: Vec<(String, String)>,
    pub unsafe_params: Vec<(String, String)>,
    pub cause_safe: bool,
    pub cause: String,
    pub marker: Option<u32>,
}

pub fn snap_error(e: &Error) -> ErrSnap {
    let (is_service, code, name) = match e.kind() {
        ErrorKind::Service(s) => (true, format!("{:?}", s.error_code()), s.error_name().to_string()),
        _ => (false, String::new(), String::new()),
    };
    let render = |p: conjure_error::Params<'_>| -> Vec<(String, String)> {
        let mut v: Vec<(String, String)> = p
            .iter()
            .map(|(k, v)| {
                (
                    k.to_string(),
                    conjure_serde::json::to_string(v).unwrap_or_else(|_| format!("{:?}", v)),
                )
            })
            .collect();
        v.sort();
        v
    };
    ErrSnap {
        is_service,
        code,
        name,
        safe_params: render(e.safe_params()),
        unsafe_params: render(e.unsafe_params()),
        cause_safe: e.cause_safe(),
        cause: e.cause().to_string(),
        marker: crate::body::marker_of(e),
    }
}

#[derive(Clone, Debug)]
pub struct WireResp {
    pub status: u16,
    pub headers: Vec<(String, Vec<u8>)>,
    pub body: Vec<u8>,
    pub streaming: bool,
}

impl WireResp {
    pub fn header(&self, name: &str) -> Option<&[u8]> {
        self.headers
            .iter()
            .find(|(n, _)| n.eq_ignore_ascii_case(name))
            .map(|(_, v)| &v[..])
    }
    pub fn set_header(&mut self, name: &str, value: &[u8]) {
        self.headers.retain(|(n, _)| !n.eq_ignore_ascii_case(name));
        self.headers.push((name.to_ascii_lowercase(), value.to_vec()));
    }
    pub fn remove_header(&mut self, name: &str) {
        self.headers.retain(|(n, _)| !n.eq_ignore_ascii_case(name));
    }
}

#[derive(Clone, Debug)]
pub enum ServerOut {
    Ok(WireResp),
    Err(ErrSnap),
    Panic(String),
    /// no endpoint matched (router stub)
    NoRoute,
    /// the request never reached the server (client-side write failure)
    NotSent,
}

/// Everything observed about one request/response exchange.
#[derive(Clone, Debug)]
pub struct Exchange {
    /// encodings registered with the server runtime that handled this exchange: (JSON, Smile)
    pub registered: (bool, bool),
    pub call: u32,
    pub client_endpoint: Option<(String, String)>,
    pub sent: WireReq,
    pub wire: WireReq,
    pub req_plan: BodyPlan,
    pub req_fired: Vec<Fired>,
    pub routed: Option<usize>,
    pub handler_before: usize,
    pub handler_after: usize,
    pub server: ServerOut,
    pub safe_params: Option<Vec<(String, String)>>,
    pub resp_wire: Option<WireResp>,
    pub resp_plan: BodyPlan,
    pub resp_fired: Vec<Fired>,
    pub write_attempts: u32,
}

pub struct Shared {
    pub ctx: Ctx,
    pub sync_eps: Vec<SyncEp>,
    pub async_eps: Vec<AsyncEp>,
    /// endpoint meta index for server list position i
    pub ep_of: Vec<usize>,
    pub handler: crate::glue::Handler,
    pub exchanges: Mutex<Vec<Exchange>>,
    pub next_body_id: Mutex<u32>,
    /// which encodings the server runtime was built with: (JSON, Smile)
    pub registered: (bool, bool),
}

/// Per-call handle: shared state plus this call's fault plan.
#[derive(Clone)]
pub struct SimTransport {
    pub sh: Arc<Shared>,
    pub call: u32,
    pub plan: Arc<Mutex<CallPlan>>,
    /// measuring mode: only the length of the request URI is noted, nothing is sent and the call
    /// fails (used to aim a later call's URI at the longest length `http::Uri` can hold)
    pub measure: Option<Arc<Mutex<Option<usize>>>>,
}

impl std::fmt::Debug for SimTransport {
    fn fmt(&self, f: &mut std::fmt::Formatter<'_>) -> std::fmt::Result {
        write!(f, "SimTransport#{}", self.call)
    }
}

impl SimTransport {
    pub fn ctx(&self) -> &Ctx {
        &self.sh.ctx
    }

    fn body_id(&self) -> u32 {
        let mut g = self.sh.next_body_id.lock().unwrap();
        *g += 1;
        *g
    }

    fn capture_head<B>(&self, req: &Request<B>) -> (WireReq, Option<(String, String)>) {
        let ep = req
            .extensions()
            .get::<conjure_http::client::Endpoint>()
            .map(|e| (e.service().to_string(), e.name().to_string()));
        let headers = req
            .headers()
            .iter()
            .map(|(n, v)| (n.as_str().to_string(), v.as_bytes().to_vec()))
            .collect();
        (
            WireReq {
                method: req.method().as_str().to_string(),
                uri: req.uri().to_string(),
                headers,
                body: None,
                streaming: false,
            },
            ep,
        )
    }

    /// Routes the (possibly damaged) wire request; returns the server list
    /// position and extracted raw path parameters.
    fn route(&self, wire: &WireReq, metas: &[(&str, &[PathSegment])]) -> Option<(usize, PathParams)> {
        let uri: http::Uri = wire.uri.parse().ok()?;
        let path = uri.path();
        let segs: Vec<&str> = path.split('/').skip(1).collect();
        'eps: for (i, (method, tmpl)) in metas.iter().enumerate() {
            if *method != wire.method {
                continue;
            }
            if tmpl.len() > segs.len() {
                continue;
            }
            let mut pp = PathParams::new();
            for (j, t) in tmpl.iter().enumerate() {
                let last = j + 1 == tmpl.len();
                match t {
                    PathSegment::Literal(l) => {
                        if segs[j] != &**l {
                            continue 'eps;
                        }
                        if last && segs.len() != tmpl.len() {
                            continue 'eps;
                        }
                    }
                    PathSegment::Parameter { name, .. } => {
                        if last && segs.len() > tmpl.len() {
                            // multi-segment trailing parameter (macro clients with a sequence encoder)
                            pp.insert(&**name, segs[j..].join("/"));
                        } else {
                            pp.insert(&**name, segs[j]);
                        }
                    }
                }
            }
            return Some((i, pp));
        }
        None
    }

    fn build_server_request(&self, wire: &WireReq, pp: PathParams, plan: &BodyPlan) -> Option<Request<SimBody>> {
        let body = SimBody::new(&self.sh.ctx, self.body_id(), plan.clone());
        let mut req = Request::new(body);
        *req.method_mut() = wire.method.parse().ok()?;
        *req.uri_mut() = wire.uri.parse().ok()?;
        for (n, v) in &wire.headers {
            let name = HeaderName::from_bytes(n.as_bytes()).ok()?;
            let value = HeaderValue::from_bytes(v).ok()?;
            req.headers_mut().append(name, value);
        }
        req.extensions_mut().insert(pp);
        Some(req)
    }

    fn snapshot_safe_params(ext: &http::Extensions) -> Option<Vec<(String, String)>> {
        ext.get::<SafeParams>().map(|sp| {
            let mut v: Vec<(String, String)> = sp
                .iter()
                .map(|(k, v)| {
                    (
                        k.to_string(),
                        conjure_serde::json::to_string(v).unwrap_or_else(|_| format!("{:?}", v)),
                    )
                })
                .collect();
            v.sort();
            v
        })
    }

    fn head_of<B>(resp: &Response<B>) -> (u16, Vec<(String, Vec<u8>)>) {
        (
            resp.status().as_u16(),
            resp.headers()
                .iter()
                .map(|(n, v)| (n.as_str().to_string(), v.as_bytes().to_vec()))
                .collect(),
        )
    }

    fn client_response(&self, w: &WireResp, plan: BodyPlan) -> Result<Response<SimBody>, Error> {
        let mut resp = Response::new(SimBody::new(&self.sh.ctx, self.body_id(), plan));
        *resp.status_mut() = StatusCode::from_u16(w.status).map_err(Error::internal_safe)?;
        for (n, v) in &w.headers {
            let name = HeaderName::from_bytes(n.as_bytes()).map_err(Error::internal_safe)?;
            let value = HeaderValue::from_bytes(v).map_err(Error::internal_safe)?;
            resp.headers_mut().append(name, value);
        }
        Ok(resp)
    }

    fn log_request(&self, ex: &Exchange) {
        self.sh.ctx.log(|| {
            format!(
                "wire_request call={} {} {} headers=[{}] body={} plan={} faults=[{}]",
                ex.call,
                ex.wire.method,
                ex.wire.uri,
                ex.wire
                    .headers
                    .iter()
                    .map(|(n, v)| format!("{}: {}", n, String::from_utf8_lossy(v)))
                    .collect::<Vec<_>>()
                    .join("; "),
                match &ex.wire.body {
                    None => "none".to_string(),
                    Some(b) => format!("{}B {:?}", b.len(), String::from_utf8_lossy(&b[..b.len().min(80)])),
                },
                ex.req_plan.describe(),
                ex.req_fired.iter().map(|f| f.describe()).collect::<Vec<_>>().join(", ")
            )
        });
    }

    fn log_response(&self, ex: &Exchange) {
        self.sh.ctx.log(|| {
            let server = match &ex.server {
                ServerOut::Ok(w) => format!(
                    "ok status={} ct={:?} body={}B",
                    w.status,
                    w.header("content-type").map(|v| String::from_utf8_lossy(v).to_string()),
                    w.body.len()
                ),
                ServerOut::Err(e) => format!(
                    "err code={} name={} safe_params={:?} cause_safe={} marker={:?}",
                    e.code, e.name, e.safe_params, e.cause_safe, e.marker
                ),
                ServerOut::Panic(m) => format!("PANIC {}", m),
                ServerOut::NoRoute => "no-route".into(),
                ServerOut::NotSent => "not-sent".into(),
            };
            format!(
                "wire_response call={} server=[{}] safe_params={:?} resp_plan={} resp_faults=[{}]",
                ex.call,
                server,
                ex.safe_params,
                ex.resp_plan.describe(),
                ex.resp_fired.iter().map(|f| f.describe()).collect::<Vec<_>>().join(", ")
            )
        });
    }

    fn metas_sync(&self) -> Vec<(&str, &[PathSegment])> {
        // method() returns an owned Method; map to static strs
        self.sh
            .sync_eps
            .iter()
            .map(|e| (method_str(&e.method()), e.path()))
            .collect()
    }

    fn metas_async(&self) -> Vec<(&str, &[PathSegment])> {
        self.sh
            .async_eps
            .iter()
            .map(|e| (method_str(&e.method()), e.path()))
            .collect()
    }

    /// Applies response-direction faults and hands the response to the client.
    fn finish(&self, mut ex: Exchange) -> Result<Response<SimBody>, Error> {
        let out = match &ex.server {
            ServerOut::Ok(w) => {
                let ep = ex.routed.map(|i| &ir().eps[i]);
                let (wire, plan, fired) = {
                    let mut plan = self.plan.lock().unwrap();
                    faults::apply_response_faults(&self.sh.ctx, &mut plan, ep, w)
                };
                ex.resp_wire = Some(wire.clone());
                ex.resp_plan = plan.clone();
                ex.resp_fired = fired;
                self.client_response(&wire, plan)
            }
            ServerOut::Err(e) => Err(remote_error(e)),
            ServerOut::Panic(m) => Err(Error::internal_safe(format!("server panicked: {}", m))),
            ServerOut::NoRoute => Err(Error::internal_safe("simulated router: no route")),
            ServerOut::NotSent => Err(Error::internal_safe("simulated transport: request not sent")),
        };
        self.log_response(&ex);
        self.sh.exchanges.lock().unwrap().push(ex);
        out
    }

    fn new_exchange(&self, sent: WireReq, client_endpoint: Option<(String, String)>) -> Exchange {
        Exchange {
            registered: self.sh.registered,
            call: self.call,
            client_endpoint,
            wire: sent.clone(),
            sent,
            req_plan: BodyPlan::default(),
            req_fired: Vec::new(),
            routed: None,
            handler_before: self.sh.handler.invocations(),
            handler_after: 0,
            server: ServerOut::NotSent,
            safe_params: None,
            resp_wire: None,
            resp_plan: BodyPlan::default(),
            resp_fired: Vec::new(),
            write_attempts: 0,
        }
    }
}

fn method_str(m: &http::Method) -> &'static str {
    match m.as_str() {
        "GET" => "GET",
        "POST" => "POST",
        "PUT" => "PUT",
        "DELETE" => "DELETE",
        "PATCH" => "PATCH",
        "HEAD" => "HEAD",
        "OPTIONS" => "OPTIONS",
        _ => "OTHER",
    }
}

/// What a real HTTP client would hand back for a non-2xx response: an error
/// propagated from the remote service (the original is kept in the exchange).
fn remote_error(e: &ErrSnap) -> Error {
    match e.marker {
        Some(id) => crate::body::marker_error(id),
        None => Error::internal_safe(format!("remote service error {} {}", e.code, e.name)),
    }
}

// --------------------------------------------------------------- blocking --

impl Client for SimTransport {
    type BodyWriter = SimWriter;
    type ResponseBody = SimBody;

    fn send(&self, req: Request<RequestBody<'_, SimWriter>>) -> Result<Response<SimBody>, Error> {
        if let Some(m) = &self.measure {
            *m.lock().unwrap() = Some(req.uri().to_string().len());
            return Err(Error::internal_safe("measured"));
        }
        crate::ctx::seam();
        let ctx = &self.sh.ctx;
        ctx.mark(0x1000 + self.call as u64);
        let (mut sent, client_ep) = self.capture_head(&req);
        let mut attempts = 0;
        match req.into_body() {
            RequestBody::Empty => {}
            RequestBody::Fixed(b) => sent.body = Some(b.to_vec()),
            RequestBody::Streaming(mut w) => {
                sent.streaming = true;
                let (wp, retry) = {
                    let mut plan = self.plan.lock().unwrap();
                    faults::request_write_plan(ctx, &mut plan)
                };
                let mut writer = SimWriter::new(wp);
                attempts = 1;
                let mut r = w.write_body(&mut writer);
                if retry || r.is_err() {
                    // a real client retries a failed attempt after reset()
                    if w.reset() {
                        ctx.count("fault.retry_fired");
                        writer = SimWriter::plain();
                        attempts = 2;
                        r = w.write_body(&mut writer);
                    }
                }
                if writer.short > 0 {
                    ctx.count_n("fault.short_write_fired", writer.short as u64);
                }
                if writer.eintr > 0 {
                    ctx.count_n("fault.eintr_fired", writer.eintr as u64);
                }
                match r {
                    Ok(()) => sent.body = Some(writer.buf),
                    Err(e) => {
                        let mut ex = self.new_exchange(sent, client_ep);
                        ex.write_attempts = attempts;
                        ex.handler_after = ex.handler_before;
                        self.log_request(&ex);
                        self.sh.exchanges.lock().unwrap().push(ex);
                        return Err(e);
                    }
                }
            }
        }
        let mut ex = self.new_exchange(sent, client_ep);
        ex.write_attempts = attempts;
        // request-direction faults
        let meta_hint = ex
            .client_endpoint
            .as_ref()
            .and_then(|(s, n)| ir().eps.iter().find(|e| &e.service == s && &e.name == n));
        {
            let mut plan = self.plan.lock().unwrap();
            let (wire, body_plan, fired) = faults::apply_request_faults(ctx, &mut plan, meta_hint, &ex.sent);
            ex.wire = wire;
            ex.req_plan = body_plan;
            ex.req_fired = fired;
        }
        self.log_request(&ex);
        // route
        let metas = self.metas_sync();
        match self.route(&ex.wire, &metas) {
            None => {
                ex.server = ServerOut::NoRoute;
            }
            Some((pos, pp)) => {
                ex.routed = Some(self.sh.ep_of[pos]);
                match self.build_server_request(&ex.wire, pp, &ex.req_plan) {
                    None => ex.server = ServerOut::NoRoute,
                    Some(sreq) => {
                        let mut ext = http::Extensions::new();
                        let ep = &self.sh.sync_eps[pos];
                        crate::ctx::seam();
                        let r = guarded(|| ep.handle(sreq, &mut ext));
                        crate::ctx::seam();
                        ex.safe_params = Self::snapshot_safe_params(&ext);
                        ex.server = match r {
                            Err(msg) => ServerOut::Panic(msg),
                            Ok(Err(e)) => ServerOut::Err(snap_error(&e)),
                            Ok(Ok(resp)) => {
                                let (status, headers) = Self::head_of(&resp);
                                match resp.into_body() {
                                    ResponseBody::Empty => ServerOut::Ok(WireResp {
                                        status,
                                        headers,
                                        body: vec![],
                                        streaming: false,
                                    }),
                                    ResponseBody::Fixed(b) => ServerOut::Ok(WireResp {
                                        status,
                                        headers,
                                        body: b.to_vec(),
                                        streaming: false,
                                    }),
                                    ResponseBody::Streaming(b) => {
                                        let wp = {
                                            let mut plan = self.plan.lock().unwrap();
                                            faults::response_write_plan(ctx, &mut plan)
                                        };
                                        let mut w = SimWriter::new(wp);
                                        match guarded(|| b.write_body(&mut w)) {
                                            Err(msg) => ServerOut::Panic(msg),
                                            Ok(Err(e)) => ServerOut::Err(snap_error(&e)),
                                            Ok(Ok(())) => {
                                                if w.short > 0 {
                                                    ctx.count_n("fault.short_write_fired", w.short as u64);
                                                }
                                                if w.eintr > 0 {
                                                    ctx.count_n("fault.eintr_fired", w.eintr as u64);
                                                }
                                                ServerOut::Ok(WireResp {
                                                    status,
                                                    headers,
                                                    body: w.buf,
                                                    streaming: true,
                                                })
                                            }
                                        }
                                    }
                                }
                            }
                        };
                    }
                }
            }
        }
        ex.handler_after = self.sh.handler.invocations();
        self.finish(ex)
    }
}

// ------------------------------------------------------------------ async --

/// Polls the inner future under the panic guard.
pub struct CatchPanic<F>(pub Pin<Box<F>>);

impl<F: Future> Future for CatchPanic<F> {
    type Output = Result<F::Output, String>;
    fn poll(mut self: Pin<&mut Self>, cx: &mut Context<'_>) -> Poll<Self::Output> {
        let inner = self.0.as_mut();
        match guarded(|| inner.poll(cx)) {
            Ok(Poll::Ready(v)) => Poll::Ready(Ok(v)),
            Ok(Poll::Pending) => Poll::Pending,
            Err(msg) => Poll::Ready(Err(msg)),
        }
    }
}

// The futures only ever run on the single simulation thread.
unsafe impl<F> Send for CatchPanic<F> {}

impl AsyncClient for SimTransport {
    type BodyWriter = SimAsyncWriter;
    type ResponseBody = SimBody;

    fn send(
        &self,
        req: Request<AsyncRequestBody<'_, SimAsyncWriter>>,
    ) -> impl Future<Output = Result<Response<SimBody>, Error>> + Send {
        async move {
            if let Some(m) = &self.measure {
                *m.lock().unwrap() = Some(req.uri().to_string().len());
                return Err(Error::internal_safe("measured"));
            }
            let ctx = &self.sh.ctx;
            ctx.mark(0x1000 + self.call as u64);
            let (mut sent, client_ep) = self.capture_head(&req);
            let mut attempts = 0;
            match req.into_body() {
                AsyncRequestBody::Empty => {}
                AsyncRequestBody::Fixed(b) => sent.body = Some(b.to_vec()),
                AsyncRequestBody::Streaming(w) => {
                    sent.streaming = true;
                    let (wp, retry, pend) = {
                        let mut plan = self.plan.lock().unwrap();
                        let (wp, retry) = faults::request_write_plan(ctx, &mut plan);
                        (wp, retry, plan.writer_pend_every)
                    };
                    let mut w = Box::pin(w);
                    let mut writer = Box::pin(SimAsyncWriter::new(ctx, wp, pend));
                    attempts = 1;
                    // a transport may also give up on an attempt that stalls: the write future is
                    // dropped at one of its suspension points, then the body is reset and re-sent
                    let abandon_after = if retry && ctx.chance(1, 2) { Some(1 + ctx.draw(4) as u32) } else { None };
                    let mut r = match abandon_after {
                        None => w.as_mut().write_body(writer.as_mut()).await,
                        Some(k) => {
                            let mut fut = Box::pin(w.as_mut().write_body(writer.as_mut()));
                            let mut pendings = 0;
                            let out = std::future::poll_fn(|cx| match fut.as_mut().poll(cx) {
                                Poll::Ready(v) => Poll::Ready(Some(v)),
                                Poll::Pending => {
                                    pendings += 1;
                                    if pendings >= k {
                                        Poll::Ready(None)
                                    } else {
                                        Poll::Pending
                                    }
                                }
                            })
                            .await;
                            drop(fut);
                            match out {
                                Some(v) => v,
                                None => {
                                    ctx.count("fault.write_attempt_abandoned_fired");
                                    Err(Error::internal_safe("simulated: attempt abandoned"))
                                }
                            }
                        }
                    };
                    if retry || r.is_err() {
                        if w.as_mut().reset().await {
                            ctx.count("fault.retry_fired");
                            writer = Box::pin(SimAsyncWriter::new(ctx, WritePlan::default(), pend));
                            attempts = 2;
                            r = w.as_mut().write_body(writer.as_mut()).await;
                        }
                    }
                    match r {
                        Ok(()) => sent.body = Some(std::mem::take(&mut writer.as_mut().get_mut().buf)),
                        Err(e) => {
                            let mut ex = self.new_exchange(sent, client_ep);
                            ex.write_attempts = attempts;
                            ex.handler_after = ex.handler_before;
                            self.log_request(&ex);
                            self.sh.exchanges.lock().unwrap().push(ex);
                            return Err(e);
                        }
                    }
                }
            }
            let mut ex = self.new_exchange(sent, client_ep);
            ex.write_attempts = attempts;
            let meta_hint = ex
                .client_endpoint
                .as_ref()
                .and_then(|(s, n)| ir().eps.iter().find(|e| &e.service == s && &e.name == n));
            {
                let mut plan = self.plan.lock().unwrap();
                let (wire, body_plan, fired) = faults::apply_request_faults(ctx, &mut plan, meta_hint, &ex.sent);
                ex.wire = wire;
                ex.req_plan = body_plan;
                ex.req_fired = fired;
            }
            self.log_request(&ex);
            let routed = {
                let metas = self.metas_async();
                self.route(&ex.wire, &metas)
            };
            match routed {
                None => ex.server = ServerOut::NoRoute,
                Some((pos, pp)) => {
                    ex.routed = Some(self.sh.ep_of[pos]);
                    match self.build_server_request(&ex.wire, pp, &ex.req_plan) {
                        None => ex.server = ServerOut::NoRoute,
                        Some(sreq) => {
                            let mut ext = http::Extensions::new();
                            let ep = &self.sh.async_eps[pos];
                            let r = CatchPanic(Box::pin(ep.handle(sreq, &mut ext))).await;
                            ex.safe_params = Self::snapshot_safe_params(&ext);
                            ex.server = match r {
                                Err(msg) => ServerOut::Panic(msg),
                                Ok(Err(e)) => ServerOut::Err(snap_error(&e)),
                                Ok(Ok(resp)) => {
                                    let (status, headers) = Self::head_of(&resp);
                                    match resp.into_body() {
                                        AsyncResponseBody::Empty => ServerOut::Ok(WireResp {
                                            status,
                                            headers,
                                            body: vec![],
                                            streaming: false,
                                        }),
                                        AsyncResponseBody::Fixed(b) => ServerOut::Ok(WireResp {
                                            status,
                                            headers,
                                            body: b.to_vec(),
                                            streaming: false,
                                        }),
                                        AsyncResponseBody::Streaming(b) => {
                                            let (wp, pend) = {
                                                let mut plan = self.plan.lock().unwrap();
                                                (faults::response_write_plan(ctx, &mut plan), plan.writer_pend_every)
                                            };
                                            let mut w = Box::pin(SimAsyncWriter::new(ctx, wp, pend));
                                            let r = CatchPanic(Box::pin(b.write_body(w.as_mut()))).await;
                                            match r {
                                                Err(msg) => ServerOut::Panic(msg),
                                                Ok(Err(e)) => ServerOut::Err(snap_error(&e)),
                                                Ok(Ok(())) => ServerOut::Ok(WireResp {
                                                    status,
                                                    headers,
                                                    body: std::mem::take(&mut w.as_mut().get_mut().buf),
                                                    streaming: true,
                                                }),
                                            }
                                        }
                                    }
                                }
                            };
                        }
                    }
                }
            }
            ex.handler_after = self.sh.handler.invocations();
            self.finish(ex)
        }
    }
}

pub fn ep_meta_for(service: &str, name: &str) -> Option<&'static EpMeta> {
    ir().eps.iter().find(|e| e.service == service && e.name == name)
}

pub fn bytes_of(b: &[u8]) -> Bytes {
    Bytes::copy_from_slice(b)
}
