//! Per-run simulation context: tape, discrete-event scheduler, event log,
//! counters. Everything a run decides or observes goes through here.

use crate::tape::{Fnv, Tape};
use std::cmp::Reverse;
use std::collections::{BTreeMap, BinaryHeap};
use std::sync::{Arc, Mutex, MutexGuard};
use std::task::Waker;

pub struct Sched {
    pub now: u64,
    seq: u64,
    heap: BinaryHeap<Reverse<(u64, u64)>>,
    wakers: BTreeMap<u64, Waker>,
}

impl Sched {
    fn new() -> Sched {
        Sched {
            now: 0,
            seq: 0,
            heap: BinaryHeap::new(),
            wakers: BTreeMap::new(),
        }
    }

    /// Registers a timer; returns its id.
    pub fn timer(&mut self, at: u64, waker: Waker) -> u64 {
        self.seq += 1;
        self.heap.push(Reverse((at, self.seq)));
        self.wakers.insert(self.seq, waker);
        self.seq
    }

    pub fn rearm(&mut self, id: u64, waker: Waker) {
        if let Some(w) = self.wakers.get_mut(&id) {
            *w = waker;
        }
    }

    /// Pops the earliest event, advancing the clock. Returns its waker.
    pub fn fire_next(&mut self) -> Option<Waker> {
        while let Some(Reverse((at, id))) = self.heap.pop() {
            if let Some(w) = self.wakers.remove(&id) {
                if at > self.now {
                    self.now = at;
                }
                return Some(w);
            }
        }
        None
    }

    pub fn pending_events(&self) -> usize {
        self.wakers.len()
    }
}

pub struct Violation {
    pub property: &'static str,
    /// violation class: stable under minimisation, used to match known findings
    pub kind: String,
    pub detail: String,
}

pub struct Inner {
    pub tape: Tape,
    pub sched: Sched,
    pub log: Vec<String>,
    pub log_enabled: bool,
    pub digest: Fnv,
    pub stats: BTreeMap<&'static str, u64>,
    pub violations: Vec<Violation>,
    pub sig: Fnv,
    pub nontrivial: bool,
    pub sim_time_total: u64,
}

#[derive(Clone)]
pub struct Ctx(pub Arc<Mutex<Inner>>);

impl Ctx {
    pub fn new(tape: Tape, log_enabled: bool) -> Ctx {
        Ctx(Arc::new(Mutex::new(Inner {
            tape,
            sched: Sched::new(),
            log: Vec::new(),
            log_enabled,
            digest: Fnv::default(),
            stats: BTreeMap::new(),
            violations: Vec::new(),
            sig: Fnv::default(),
            nontrivial: false,
            sim_time_total: 0,
        })))
    }

    #[inline]
    pub fn lock(&self) -> MutexGuard<'_, Inner> {
        match self.0.lock() {
            Ok(g) => g,
            Err(p) => p.into_inner(),
        }
    }

    #[inline]
    pub fn draw(&self, n: u64) -> u64 {
        self.lock().tape.draw(n)
    }

    #[inline]
    pub fn chance(&self, num: u64, den: u64) -> bool {
        self.lock().tape.chance(num, den)
    }

    pub fn with_tape<R>(&self, f: impl FnOnce(&mut Tape) -> R) -> R {
        f(&mut self.lock().tape)
    }

    /// Appends to the event log (and digest). Never draws, never reads a clock.
    pub fn log(&self, line: impl FnOnce() -> String) {
        let mut g = self.lock();
        let s = line();
        g.digest.write_str(&s);
        if g.log_enabled {
            g.log.push(s);
        }
    }

    #[inline]
    pub fn count(&self, key: &'static str) {
        *self.lock().stats.entry(key).or_insert(0) += 1;
    }

    pub fn count_n(&self, key: &'static str, n: u64) {
        *self.lock().stats.entry(key).or_insert(0) += n;
    }

    /// Feeds the run signature (distinct-interleaving measure).
    pub fn sig(&self, s: &str) {
        self.lock().sig.write_str(s);
    }

    pub fn mark_nontrivial(&self) {
        self.lock().nontrivial = true;
    }

    pub fn violation(&self, property: &'static str, kind: impl Into<String>, detail: impl Into<String>) {
        let kind = kind.into();
        let detail = detail.into();
        let mut g = self.lock();
        let line = format!("VIOLATION {} {} :: {}", property, kind, detail);
        g.digest.write_str(&line);
        if g.log_enabled {
            g.log.push(line);
        }
        g.violations.push(Violation {
            property,
            kind,
            detail,
        });
    }

    pub fn now(&self) -> u64 {
        self.lock().sched.now
    }

    pub fn advance(&self, dt: u64) {
        let mut g = self.lock();
        g.sched.now += dt;
    }
}
