//! Per-run simulation context: tape, discrete-event scheduler, event log,
//! counters. Everything a run decides or observes goes through here.

use crate::tape::{Fnv, Tape};
use std::cmp::Reverse;
use std::collections::{BTreeMap, BinaryHeap};
use std::sync::{Arc, Mutex, MutexGuard};
use std::task::Waker;

pub struct Sched {
    pub now: u64,
    seq: u64,
    heap: BinaryHeap<Reverse<(u64, u64)>>,
    wakers: BTreeMap<u64, Waker>,
}

impl Sched {
    fn new() -> Sched {
        Sched {
            now: 0,
            seq: 0,
            heap: BinaryHeap::new(),
            wakers: BTreeMap::new(),
        }
    }

    /// Registers a timer; returns its id.
    pub fn timer(&mut self, at: u64, waker: Waker) -> u64 {
        self.seq += 1;
        self.heap.push(Reverse((at, self.seq)));
        self.wakers.insert(self.seq, waker);
        self.seq
    }

    pub fn rearm(&mut self, id: u64, waker: Waker) {
        if let Some(w) = self.wakers.get_mut(&id) {
            *w = waker;
        }
    }

    /// Pops the earliest event, advancing the clock. Returns its waker.
    pub fn fire_next(&mut self) -> Option<Waker> {
        while let Some(Reverse((at, id))) = self.heap.pop() {
            if let Some(w) = self.wakers.remove(&id) {
                if at > self.now {
                    self.now = at;
                }
                return Some(w);
            }
        }
        None
    }

    pub fn pending_events(&self) -> usize {
        self.wakers.len()
    }
}

pub struct Violation {
    pub property: &'static str,
    /// violation class: stable under minimisation, used to match known findings
    pub kind: String,
    pub detail: String,
}

pub struct Inner {
    pub tape: Tape,
    pub sched: Sched,
    pub log: Vec<String>,
    pub log_enabled: bool,
    pub digest: Fnv,
    pub stats: BTreeMap<&'static str, u64>,
    pub violations: Vec<Violation>,
    pub sig: Fnv,
    pub nontrivial: bool,
    pub sim_time_total: u64,
}

#[derive(Clone)]
pub struct Ctx(pub Arc<Mutex<Inner>>);

impl Ctx {
    pub fn new(tape: Tape, log_enabled: bool) -> Ctx {
        Ctx(Arc::new(Mutex::new(Inner {
            tape,
            sched: Sched::new(),
            log: Vec::new(),
            log_enabled,
            digest: Fnv::default(),
            stats: BTreeMap::new(),
            violations: Vec::new(),
            sig: Fnv::default(),
            nontrivial: false,
            sim_time_total: 0,
        })))
    }

    #[inline]
    pub fn lock(&self) -> MutexGuard<'_, Inner> {
        match self.0.lock() {
            Ok(g) => g,
            Err(p) => p.into_inner(),
        }
    }

    #[inline]
    pub fn draw(&self, n: u64) -> u64 {
        self.lock().tape.draw(n)
    }

    #[inline]
    pub fn chance(&self, num: u64, den: u64) -> bool {
        self.lock().tape.chance(num, den)
    }

    pub fn with_tape<R>(&self, f: impl FnOnce(&mut Tape) -> R) -> R {
        f(&mut self.lock().tape)
    }

    /// Appends to the event log (and digest). Never draws, never reads a clock.
    pub fn log(&self, line: impl FnOnce() -> String) {
        let mut g = self.lock();
        let s = line();
        let s = if std::env::var_os("VERIF_TRACE_POS").is_some() { format!("[t{} {:x}] {}", g.tape.consumed(), g.tape.shape & 0xffff, s) } else { s };
        g.digest.write_str(&s);
        if g.log_enabled {
            g.log.push(s);
        }
    }

    #[inline]
    pub fn count(&self, key: &'static str) {
        *self.lock().stats.entry(key).or_insert(0) += 1;
    }

    pub fn count_n(&self, key: &'static str, n: u64) {
        *self.lock().stats.entry(key).or_insert(0) += n;
    }

    /// A milestone of the run (see `Tape::mark`).
    pub fn mark(&self, tag: u64) {
        self.lock().tape.mark(tag);
    }

    /// Feeds the run signature (distinct-interleaving measure).
    pub fn sig(&self, s: &str) {
        self.lock().sig.write_str(s);
    }

    pub fn mark_nontrivial(&self) {
        self.lock().nontrivial = true;
    }

    pub fn violation(&self, property: &'static str, kind: impl Into<String>, detail: impl Into<String>) {
        let kind = kind.into();
        let detail = detail.into();
        let mut g = self.lock();
        let line = format!("VIOLATION {} {} :: {}", property, kind, detail);
        g.digest.write_str(&line);
        if g.log_enabled {
            g.log.push(line);
        }
        g.violations.push(Violation {
            property,
            kind,
            detail,
        });
    }

    pub fn now(&self) -> u64 {
        self.lock().sched.now
    }

    pub fn advance(&self, dt: u64) {
        let mut g = self.lock();
        g.sched.now += dt;
    }
}


// ------------------------------------------------------------------ baton --
//
// Blocking calls "in flight at once" need real threads. They are released one at a time: a
// thread runs until it reaches a seam of the simulation (a body chunk is requested, bytes are
// written, a request is handed to the transport, a handler is entered), where the tape decides
// which thread continues. Exactly one thread runs at any moment, so a run is still a pure
// function of its tape.

pub struct Baton {
    m: Mutex<BatonState>,
    cv: std::sync::Condvar,
}

struct BatonState {
    active: usize,
    alive: Vec<bool>,
}

thread_local! {
    static SLOT: std::cell::RefCell<Option<(Arc<Baton>, usize, Ctx)>> = const { std::cell::RefCell::new(None) };
}

/// Real-time bound on waiting for the baton: only a deadlock inside the code under test (a
/// thread blocked on a lock of the code under test while another holds it across a seam) gets here.
const BATON_TIMEOUT: std::time::Duration = std::time::Duration::from_secs(30);

impl Baton {
    pub fn new(n: usize) -> Arc<Baton> {
        Arc::new(Baton {
            m: Mutex::new(BatonState {
                active: usize::MAX,
                alive: vec![true; n],
            }),
            cv: std::sync::Condvar::new(),
        })
    }

    fn lock(&self) -> MutexGuard<'_, BatonState> {
        match self.m.lock() {
            Ok(g) => g,
            Err(p) => p.into_inner(),
        }
    }

    fn wait_for(&self, mut st: MutexGuard<'_, BatonState>, me: usize) {
        while st.active != me {
            let (g, t) = match self.cv.wait_timeout(st, BATON_TIMEOUT) {
                Ok(x) => x,
                Err(p) => p.into_inner(),
            };
            st = g;
            if t.timed_out() && st.active != me {
                eprintln!(
                    "HARNESS: blocking threads deadlocked: thread {} has held the baton for {:?} without reaching a seam (thread {} is waiting)",
                    st.active, BATON_TIMEOUT, me
                );
                std::process::exit(2);
            }
        }
    }

    /// The first thing a worker does: adopt slot `me` and wait to be chosen.
    pub fn enter(self: &Arc<Baton>, me: usize, ctx: &Ctx) {
        SLOT.with(|s| *s.borrow_mut() = Some((self.clone(), me, ctx.clone())));
        let st = self.lock();
        self.wait_for(st, me);
    }

    /// The main thread releases the first worker.
    pub fn start(&self, ctx: &Ctx) {
        let mut st = self.lock();
        let n = st.alive.len() as u64;
        st.active = ctx.draw(n) as usize;
        let a = st.active;
        ctx.log(|| format!("threads: {} start with thread {}", n, a));
        self.cv.notify_all();
    }

    /// The last thing a worker does.
    pub fn leave(&self, me: usize, ctx: &Ctx) {
        SLOT.with(|s| *s.borrow_mut() = None);
        let mut st = self.lock();
        st.alive[me] = false;
        let alive: Vec<usize> = (0..st.alive.len()).filter(|i| st.alive[*i]).collect();
        if !alive.is_empty() {
            st.active = alive[ctx.draw(alive.len() as u64) as usize];
            let a = st.active;
            ctx.log(|| format!("threads: thread {} done, thread {} continues", me, a));
        }
        self.cv.notify_all();
    }

    fn switch(&self, me: usize, ctx: &Ctx) {
        let mut st = self.lock();
        let alive: Vec<usize> = (0..st.alive.len()).filter(|i| st.alive[*i]).collect();
        if alive.len() <= 1 {
            return;
        }
        let pick = alive[ctx.draw(alive.len() as u64) as usize];
        ctx.count("sched.thread_seam_points");
        if pick != me {
            ctx.count("sched.thread_switches");
            ctx.log(|| format!("threads: {} -> {}", me, pick));
            st.active = pick;
            self.cv.notify_all();
            self.wait_for(st, me);
        }
    }
}

/// A seam of the simulation was reached: under the baton, the tape decides who continues.
/// A no-op on threads that do not run under a baton.
pub fn seam() {
    let slot = SLOT.with(|s| s.borrow().as_ref().map(|(b, me, ctx)| (b.clone(), *me, ctx.clone())));
    if let Some((b, me, ctx)) = slot {
        b.switch(me, &ctx);
    }
}
