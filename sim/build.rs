use std::env;
use std::path::PathBuf;

// Regenerates the client/server code for ir/sim-ir.json with the *current*
// conjure-codegen from /repo on every build.
fn main() {
    let input = "ir/sim-ir.json";
    println!("cargo:rerun-if-changed={}", input);
    println!("cargo:rerun-if-changed=/repo/conjure-codegen/src");
    let output = PathBuf::from(env::var_os("OUT_DIR").unwrap()).join("sim_ir");
    let _ = std::fs::remove_dir_all(&output);
    conjure_codegen::Config::new()
        .strip_prefix("com.palantir.sim".to_string())
        .generate_files(input, output)
        .unwrap();
}
