#!/usr/bin/env python3
"""Emits ir/sim-ir.json (a hand-specified Conjure IR, version 1) and
src/glue_gen.rs (per-endpoint glue between the dynamic harness values and the
statically typed code generated from that IR by the *real* conjure-codegen).

The Java Conjure compiler is not available offline, so the IR is written here
directly.  Re-run after editing:  python3 ir/gen_ir.py   (outputs are committed).
"""
import json, os, re

PKG = "com.palantir.sim"
HERE = os.path.dirname(os.path.abspath(__file__))

# ---------------------------------------------------------------- IR types --
def prim(p): return {"type": "primitive", "primitive": p}
STRING, INTEGER, DOUBLE, SAFELONG, BOOLEAN = map(prim, ["STRING", "INTEGER", "DOUBLE", "SAFELONG", "BOOLEAN"])
UUID, RID, BEARERTOKEN, DATETIME, BINARY, ANY = map(prim, ["UUID", "RID", "BEARERTOKEN", "DATETIME", "BINARY", "ANY"])
def opt(t): return {"type": "optional", "optional": {"itemType": t}}
def lst(t): return {"type": "list", "list": {"itemType": t}}
def st(t): return {"type": "set", "set": {"itemType": t}}
def mp(k, v): return {"type": "map", "map": {"keyType": k, "valueType": v}}
def ref(n): return {"type": "reference", "reference": {"name": n, "package": PKG}}
def tn(n): return {"name": n, "package": PKG}
def ext(fallback): return {"type": "external", "external": {"externalReference": {"name": "Foreign", "package": "com.other.lib"}, "fallback": fallback}}

types = []
def alias(name, t, safety=None):
    d = {"typeName": tn(name), "alias": t}
    if safety: d["safety"] = safety
    types.append({"type": "alias", "alias": d})
def enum(name, values):
    types.append({"type": "enum", "enum": {"typeName": tn(name), "values": [{"value": v} for v in values]}})
def obj(name, fields):
    types.append({"type": "object", "object": {"typeName": tn(name),
        "fields": [{"fieldName": f, "type": t} for f, t in fields]}})
def union(name, fields):
    types.append({"type": "union", "union": {"typeName": tn(name),
        "union": [{"fieldName": f, "type": t} for f, t in fields]}})

enum("Color", ["RED", "GREEN", "BLUE_GREEN"])
alias("StrAlias", STRING)
alias("SafeStrAlias", STRING, "SAFE")
alias("IntAlias", INTEGER)
alias("UuidAlias", UUID)
alias("DoubleAlias", DOUBLE)
alias("BinaryAlias", BINARY)
alias("OptIntAlias", opt(INTEGER))
alias("OptStrAlias", opt(STRING))
alias("OptAliasAlias", ref("OptIntAlias"))
alias("ListStrAlias", lst(STRING))
alias("SetIntAlias", st(INTEGER))
alias("OptNodeAlias", opt(ref("Node")))
alias("MapStrAlias", mp(STRING, STRING))
alias("MapAliasAlias", ref("MapStrAlias"))
alias("SetStrAlias", st(STRING))
alias("ColorMapAlias", mp(STRING, ref("Color")))
obj("Empty", [])
obj("Leaf", [
    ("d", DOUBLE), ("od", opt(DOUBLE)), ("b", BINARY), ("s", STRING), ("i", INTEGER),
    ("l", SAFELONG), ("flag", BOOLEAN), ("u", opt(UUID)), ("t", opt(DATETIME)),
    ("r", opt(RID)), ("tok", opt(BEARERTOKEN)), ("ob", opt(BINARY)),
])
obj("Keys", [
    ("byInt", mp(INTEGER, STRING)), ("byLong", mp(SAFELONG, DOUBLE)), ("byUuid", mp(UUID, INTEGER)),
    ("byRid", mp(RID, BOOLEAN)), ("byToken", mp(BEARERTOKEN, STRING)), ("byTime", mp(DATETIME, STRING)),
    ("byBinary", mp(BINARY, BINARY)), ("byDouble", mp(DOUBLE, DOUBLE)), ("byBool", mp(BOOLEAN, opt(DOUBLE))),
    ("byColor", mp(ref("Color"), lst(DOUBLE))), ("byAlias", mp(ref("StrAlias"), ref("DoubleAlias"))),
    ("doubles", st(DOUBLE)),
])
obj("Node", [
    ("name", STRING), ("value", DOUBLE), ("blob", opt(BINARY)), ("children", lst(ref("Node"))),
    ("next", opt(ref("Node"))), ("tags", st(STRING)), ("byDouble", mp(DOUBLE, ref("Leaf"))),
    ("byName", mp(STRING, ref("Node"))), ("leaf", opt(ref("Leaf"))), ("choice", opt(ref("Choice"))),
    ("alias", opt(ref("StrAlias"))), ("keys", opt(ref("Keys"))), ("color", opt(ref("Color"))),
    ("leaves", lst(opt(ref("Leaf")))), ("type", opt(INTEGER)), ("leafSet", st(ref("Leaf"))),
])
obj("Grants", [("byUser", mp(STRING, ref("Color"))), ("level", ref("Color")), ("tags", st(ref("Color")))])
union("Choice", [
    ("leaf", ref("Leaf")), ("node", ref("Node")), ("text", STRING), ("num", DOUBLE),
    ("many", lst(ref("Leaf"))), ("maybe", opt(ref("Leaf"))), ("empty", ref("Empty")),
])

# ---------------------------------------------------------------- services --
services = []
SAFE_MARKER = {"type": "external", "external": {"externalReference": {"name": "Safe", "package": "com.palantir.logsafe"},
                                                 "fallback": ANY}}
def ext_marker(package, name):
    return {"type": "external", "external": {"externalReference": {"name": name, "package": package}, "fallback": ANY}}
MARKERS = {True: [SAFE_MARKER], False: [],
           "unsafe": [ext_marker("com.palantir.logsafe", "Unsafe")],
           "dnl": [ext_marker("com.palantir.logsafe", "DoNotLog")],
           "foreign": [ext_marker("com.example.audit", "Safe")],
           "two": [ext_marker("com.example.audit", "Safe"), ext_marker("com.palantir.logsafe", "Unsafe")]}
def is_safe_marker(m):
    r = m.get("external", {}).get("externalReference", {})
    return r.get("package") == "com.palantir.logsafe" and r.get("name") == "Safe"
def arg(name, t, kind, pid=None, safety=None, marker=False, tag=False):
    if kind == "path": pt = {"type": "path", "path": {}}
    elif kind == "query": pt = {"type": "query", "query": {"paramId": pid or name}}
    elif kind == "header": pt = {"type": "header", "header": {"paramId": pid or name}}
    elif kind == "body": pt = {"type": "body", "body": {}}
    a = {"argName": name, "type": t, "paramType": pt, "markers": MARKERS[marker], "tags": ["safe"] if tag else []}
    if safety: a["safety"] = safety
    return a
def ep(name, method, path, args=(), returns=None, auth=None, tags=()):
    e = {"endpointName": name, "httpMethod": method, "httpPath": path, "args": list(args), "markers": [], "tags": list(tags)}
    if returns is not None: e["returns"] = returns
    if auth == "header": e["auth"] = {"type": "header", "header": {}}
    elif auth: e["auth"] = {"type": "cookie", "cookie": {"cookieName": auth}}
    return e
def service(name, endpoints):
    services.append({"serviceName": tn(name), "endpoints": endpoints})

PLAIN = [("s", STRING), ("i", INTEGER), ("l", SAFELONG), ("d", DOUBLE), ("b", BOOLEAN), ("u", UUID),
         ("r", RID), ("k", BEARERTOKEN), ("t", DATETIME), ("e", ref("Color")), ("a", ref("StrAlias")),
         ("ia", ref("IntAlias")), ("ua", ref("UuidAlias"))]

service("ParamService", [
    ep("pathPrims", "GET", "/p/prims/" + "/".join("{%s}" % n for n, _ in PLAIN),
       [arg(n, t, "path") for n, t in PLAIN]),
    ep("pathMixed", "GET", "/p/mixed/{fooBar}/lit/{type}/end",
       [arg("fooBar", STRING, "path"), arg("type", INTEGER, "path")]),
    ep("pathOne", "GET", "/p/one/{only}", [arg("only", STRING, "path")]),
    # arguments declared in another order than the template binds them
    ep("pathSwapped", "GET", "/p/swapped/{first}/{second}", [arg("second", STRING, "path"), arg("first", STRING, "path")]),
    ep("pathSwappedMixed", "GET", "/p/mixed2/{name}/items/{flag}/{id}",
       [arg("id", INTEGER, "path"), arg("q", opt(STRING), "query"), arg("flag", BOOLEAN, "path"), arg("name", STRING, "path")]),
    ep("queryPrims", "GET", "/q/prims", [arg(n, t, "query", pid=n + "-id") for n, t in PLAIN]),
    ep("queryOpt", "GET", "/q/opt", [arg(n, opt(t), "query", pid=n) for n, t in PLAIN]
       + [arg("oa", ref("OptIntAlias"), "query"), arg("oaa", ref("OptAliasAlias"), "query"),
          arg("osa", ref("OptStrAlias"), "query")]),
    ep("queryColl", "GET", "/q/coll", [
        arg("ls", lst(STRING), "query"), arg("li", lst(INTEGER), "query"), arg("ld", lst(DOUBLE), "query"),
        arg("lu", lst(UUID), "query"), arg("ss", st(STRING), "query"), arg("si", st(INTEGER), "query"),
        arg("sc", st(ref("Color")), "query"), arg("sb", st(BOOLEAN), "query"), arg("la", ref("ListStrAlias"), "query"),
        arg("sa", ref("SetIntAlias"), "query"), arg("lal", lst(ref("StrAlias")), "query"),
        arg("lb", lst(BINARY), "query"), arg("ob", opt(BINARY), "query")]),
    ep("queryMixed", "POST", "/q/mixed/{fooBar}", [
        arg("fooBar", STRING, "path"), arg("type", opt(STRING), "query", pid="type"),
        arg("camelCase", STRING, "query", pid="camel-case"), arg("list", lst(STRING), "query", pid="l"),
        arg("body", ref("Leaf"), "body")], returns=STRING),
    ep("headerPrims", "GET", "/h/prims", [arg(n, t, "header", pid="X-" + n.upper() + "-Hdr") for n, t in PLAIN]),
    ep("headerOpt", "GET", "/h/opt", [arg(n, opt(t), "header", pid="X-Opt-" + n) for n, t in PLAIN]
       + [arg("oa", ref("OptIntAlias"), "header", pid="X-Opt-Alias"),
          arg("oaa", ref("OptAliasAlias"), "header", pid="X-Opt-Alias-Alias")]),
    ep("headerMixed", "GET", "/h/mixed/{p}", [
        arg("p", INTEGER, "path"), arg("numHeader", INTEGER, "header", pid="X-Num"),
        arg("type", opt(STRING), "header", pid="X-Type"), arg("q", opt(INTEGER), "query")], auth="header"),
    ep("authHeader", "GET", "/a/header", [arg("q", STRING, "query")], auth="header", returns=STRING),
    ep("authCookie", "GET", "/a/cookie/{p}", [arg("p", STRING, "path")], auth="simcookie", returns=opt(STRING)),
])

service("SafetyService", [
    ep("safety", "POST", "/s/{safePath}/{unsafePath}/{dnlPath}/{markerPath}/{tagPath}/{plainPath}", [
        arg("safePath", STRING, "path", safety="SAFE"), arg("unsafePath", STRING, "path", safety="UNSAFE"),
        arg("dnlPath", STRING, "path", safety="DO_NOT_LOG"), arg("markerPath", STRING, "path", marker=True),
        arg("tagPath", INTEGER, "path", tag=True), arg("plainPath", STRING, "path"),
        arg("safeQuery", STRING, "query", pid="safeQueryId", safety="SAFE"),
        arg("unsafeQuery", STRING, "query", pid="unsafeQueryId"),
        arg("safeOptQuery", opt(INTEGER), "query", pid="soq", safety="SAFE"),
        arg("unsafeListQuery", lst(STRING), "query", pid="ulq"),
        arg("safeListQuery", lst(STRING), "query", pid="slq", safety="SAFE"),
        arg("unsafeIntQuery", opt(INTEGER), "query", pid="uiq", safety="UNSAFE"),
        arg("safeHeader", ref("SafeStrAlias"), "header", pid="Safe-Header"),
        arg("unsafeHeader", ref("StrAlias"), "header", pid="Unsafe-Header"),
        arg("safeOptHeader", opt(STRING), "header", pid="Safe-Opt-Header", safety="SAFE"),
        arg("unsafeUuidHeader", opt(UUID), "header", pid="Unsafe-Uuid-Header"),
        arg("dnlHeader", opt(STRING), "header", pid="Dnl-Header", safety="DO_NOT_LOG"),
        arg("body", STRING, "body"),
    ], auth="header"),
    # markers other than com.palantir.logsafe.Safe do not make an argument safe
    ep("markers", "POST", "/s/markers/{realSafe}/{markedUnsafe}/{markedDnl}", [
        arg("realSafe", STRING, "path", marker=True), arg("markedUnsafe", STRING, "path", marker="unsafe"),
        arg("markedDnl", STRING, "path", marker="dnl"),
        arg("foreignSafe", STRING, "query", pid="fs", marker="foreign"),
        arg("twoMarkers", opt(STRING), "query", pid="tm", marker="two"),
        arg("markedUnsafeHeader", opt(STRING), "header", pid="Marked-Unsafe", marker="unsafe"),
        arg("body", STRING, "body", marker="foreign"),
    ]),
    ep("safeBody", "POST", "/s/body/safe", [arg("body", STRING, "body", safety="SAFE"),
                                            arg("q", opt(STRING), "query")]),
    ep("mapKeys", "POST", "/s/map/keys", [arg("grants", mp(STRING, ref("Color")), "body")]),
    ep("tokenKeys", "POST", "/s/map/tokens", [arg("grants", mp(BEARERTOKEN, ref("Color")), "body")]),
    ep("aliasKeys", "POST", "/s/map/aliases", [arg("grants", mp(ref("StrAlias"), ref("SafeStrAlias")), "body")]),
    ep("grantsObject", "POST", "/s/map/object", [arg("grants", ref("Grants"), "body")]),
    ep("listOfMaps", "POST", "/s/map/list", [arg("grants", lst(mp(STRING, ref("Color"))), "body"),
                                             arg("colors", st(ref("Color")), "query")]),
    ep("mapAliasBody", "POST", "/s/map/alias", [arg("grants", ref("ColorMapAlias"), "body")]),
    ep("safeMap", "POST", "/s/map/safe", [arg("grants", mp(ref("SafeStrAlias"), ref("Color")), "body")]),
    ep("unsafeBody", "POST", "/s/body/unsafe/{safeP}", [arg("safeP", INTEGER, "path", safety="SAFE"),
                                                        arg("body", ref("Leaf"), "body")], auth="cookie-tok"),
])

service("BodyService", [
    ep("bodyString", "POST", "/b/string", [arg("body", STRING, "body")]),
    ep("bodyDouble", "POST", "/b/double", [arg("body", DOUBLE, "body")], returns=DOUBLE),
    ep("bodyInteger", "POST", "/b/integer", [arg("body", INTEGER, "body")]),
    ep("bodyNode", "POST", "/b/node", [arg("body", ref("Node"), "body")], returns=ref("Node")),
    ep("bodyLeaf", "PUT", "/b/leaf", [arg("body", ref("Leaf"), "body")]),
    ep("bodyKeys", "POST", "/b/keys", [arg("body", ref("Keys"), "body")], returns=ref("Keys")),
    ep("bodyOptNode", "POST", "/b/optNode", [arg("body", opt(ref("Node")), "body")], returns=opt(ref("Node"))),
    ep("bodyOptString", "POST", "/b/optString", [arg("body", opt(STRING), "body")]),
    ep("bodyOptAlias", "POST", "/b/optAlias", [arg("body", ref("OptStrAlias"), "body")]),
    ep("bodyOptNodeAlias", "POST", "/b/optNodeAlias", [arg("body", ref("OptNodeAlias"), "body")]),
    ep("bodyChoice", "POST", "/b/choice", [arg("body", ref("Choice"), "body")], returns=ref("Choice")),
    ep("bodyColor", "POST", "/b/color", [arg("body", ref("Color"), "body")]),
    ep("bodyList", "POST", "/b/list", [arg("body", lst(ref("Leaf")), "body")]),
    ep("bodyMap", "POST", "/b/map", [arg("body", mp(STRING, DOUBLE), "body")]),
    ep("bodySet", "POST", "/b/set", [arg("body", st(STRING), "body")]),
    ep("bodyBinary", "POST", "/b/binary", [arg("body", BINARY, "body")]),
    ep("bodyBinaryAlias", "POST", "/b/binaryAlias/{p}", [arg("p", STRING, "path"), arg("body", ref("BinaryAlias"), "body")],
       returns=BINARY),
    ep("bodySmall10", "POST", "/b/small10", [arg("body", STRING, "body")], tags=["server-limit-request-size: 10b"]),
    ep("bodySmall64", "POST", "/b/small64", [arg("body", ref("Leaf"), "body")], tags=["server-limit-request-size: 64b"]),
    ep("bodyKib", "POST", "/b/kib", [arg("body", ref("Node"), "body")], tags=["server-limit-request-size: 1kib"]),
    ep("bodyOptSmall", "POST", "/b/optSmall", [arg("body", opt(STRING), "body")], tags=["server-limit-request-size: 16b"]),
    ep("bodyOptAliasSmall", "POST", "/b/optAliasSmall", [arg("body", ref("OptStrAlias"), "body")], tags=["server-limit-request-size: 16b"]),
    ep("bodyKb", "POST", "/b/kb", [arg("body", ref("Node"), "body")], tags=["server-limit-request-size: 1 KB"]),
    ep("bodyHundred", "POST", "/b/hundred", [arg("body", lst(STRING), "body")], returns=INTEGER, tags=["server-limit-request-size: 100"]),
    # the limit tag among other tags, sorting before and after it
    ep("bodyMb", "POST", "/b/mb", [arg("body", lst(STRING), "body")], tags=["server-limit-request-size: 1mb"]),
    ep("bodyTaggedBefore", "POST", "/b/taggedBefore", [arg("body", STRING, "body")], tags=["incubating", "server-limit-request-size: 24b"]),
    ep("bodyTaggedAfter", "POST", "/b/taggedAfter", [arg("body", opt(STRING), "body")], tags=["server-limit-request-size: 24b", "zz-team-owner", "Audited"]),
    ep("bodyWithParams", "POST", "/b/with/{p}", [
        arg("p", STRING, "path"), arg("q", lst(INTEGER), "query"), arg("h", opt(STRING), "header", pid="X-H"),
        arg("body", ref("Node"), "body")], returns=lst(STRING), auth="header"),
])

service("ReturnService", [
    ep("retNone", "GET", "/r/none"),
    ep("retString", "GET", "/r/string", returns=STRING),
    ep("retDouble", "GET", "/r/double", returns=DOUBLE),
    ep("retInteger", "GET", "/r/integer", returns=INTEGER),
    ep("retBool", "GET", "/r/bool", returns=BOOLEAN),
    ep("retNode", "GET", "/r/node", returns=ref("Node")),
    ep("retKeys", "GET", "/r/keys", returns=ref("Keys")),
    ep("retChoice", "GET", "/r/choice", returns=ref("Choice")),
    ep("retColor", "GET", "/r/color", returns=ref("Color")),
    ep("retOptString", "GET", "/r/optString", returns=opt(STRING)),
    ep("retOptNode", "GET", "/r/optNode", returns=opt(ref("Node"))),
    ep("retOptAlias", "GET", "/r/optAlias", returns=ref("OptStrAlias")),
    ep("retList", "GET", "/r/list", returns=lst(ref("Leaf"))),
    ep("retListAlias", "GET", "/r/listAlias", returns=ref("ListStrAlias")),
    ep("retSet", "GET", "/r/set", returns=st(STRING)),
    ep("retMap", "GET", "/r/map", returns=mp(STRING, ref("Leaf"))),
    ep("retMapDoubleKey", "GET", "/r/mapDoubleKey", returns=mp(DOUBLE, STRING)),
    ep("retMapAlias", "GET", "/r/mapAlias", returns=ref("MapStrAlias")),
    ep("retMapAliasAlias", "GET", "/r/mapAliasAlias", returns=ref("MapAliasAlias")),
    ep("retSetAlias", "GET", "/r/setAlias", returns=ref("SetStrAlias")),
    ep("retOptAliasAlias", "GET", "/r/optAliasAlias", returns=ref("OptAliasAlias")),
    ep("retExtMap", "GET", "/r/extMap", [arg("q", ext(STRING), "query")], returns=ext(mp(STRING, INTEGER))),
    ep("retExtOpt", "GET", "/r/extOpt", returns=ext(opt(STRING))),
    ep("retBinary", "GET", "/r/binary", returns=BINARY),
    ep("retOptBinary", "GET", "/r/optBinary", returns=opt(BINARY)),
    ep("retBinaryAlias", "GET", "/r/binaryAlias", returns=ref("BinaryAlias")),
    ep("retOptBinaryAlias", "GET", "/r/optBinaryAlias", returns=opt(ref("BinaryAlias"))),
    ep("retCtx", "GET", "/r/ctx", [arg("q", opt(STRING), "query")], returns=STRING, tags=["server-request-context"]),
    ep("retCtxNoArgs", "GET", "/r/ctxNoArgs", tags=["server-request-context"]),
])

# ---- systematically varied shapes: a seeded (fixed) draw of argument / body / return types so that every
# container x leaf combination the generator has special cases for appears somewhere
import random
rnd = random.Random(20261002)
LEAVES = [STRING, INTEGER, DOUBLE, SAFELONG, BOOLEAN, UUID, RID, BEARERTOKEN, DATETIME, BINARY,
          ref("Color"), ref("StrAlias"), ref("IntAlias"), ref("DoubleAlias"), ref("UuidAlias"), ref("Leaf"), ref("Choice"), ref("Empty")]
KEYS = [STRING, INTEGER, DOUBLE, SAFELONG, BOOLEAN, UUID, RID, BEARERTOKEN, DATETIME, ref("Color"), ref("StrAlias")]
def is_binary_t(t): return t == BINARY or t == ref("BinaryAlias")
def is_optional(t):
    while True:
        k = t["type"]
        if k == "external": t = t["external"]["fallback"]
        elif k == "reference":
            d = [x for x in types if x[x["type"]]["typeName"]["name"] == t["reference"]["name"]][0]
            if d["type"] != "alias": return None
            t = d["alias"]["alias"]
        else: break
    return t["optional"]["itemType"] if t["type"] == "optional" else None
def shape(depth=0):
    r = rnd.random()
    if depth >= 2 or r < 0.25:
        t = rnd.choice(LEAVES)
        return t
    if r < 0.45:
        # the Conjure compiler rejects optional<optional<..>> (Some(None) and None are both `null` on the wire)
        while True:
            inner = shape(depth + 1)
            if is_optional(inner) is None: return opt(inner)
    if r < 0.65: return lst(shape(depth + 1))
    if r < 0.75:
        inner = rnd.choice([STRING, INTEGER, DOUBLE, SAFELONG, BOOLEAN, UUID, RID, DATETIME, ref("Color"), ref("StrAlias"), ref("Leaf")])
        return st(inner)
    if r < 0.92: return mp(rnd.choice(KEYS), shape(depth + 1))
    return ext(shape(depth + 1))
def no_nested_binary(t, top=True):
    # binary is only legal as a whole body / return (or optional return); elsewhere keep it out of containers of containers
    k = t["type"]
    if k == "primitive": return True
    if k == "optional": return no_nested_binary(t["optional"]["itemType"], False)
    if k == "list": return no_nested_binary(t["list"]["itemType"], False)
    if k == "set": return no_nested_binary(t["set"]["itemType"], False)
    if k == "map": return no_nested_binary(t["map"]["valueType"], False)
    if k == "external": return no_nested_binary(t["external"]["fallback"], top)
    return True
shape_eps = []
for i in range(28):
    while True:
        b = shape(); r = shape()
        # a top-level (optional) binary would turn the endpoint into a streaming one: covered elsewhere
        def streaming(t):
            t2 = t
            while t2["type"] == "external": t2 = t2["external"]["fallback"]
            if t2["type"] == "optional": t2 = t2["optional"]["itemType"]
            while t2["type"] == "external": t2 = t2["external"]["fallback"]
            return t2 == BINARY
        if not streaming(b) and not streaming(r): break
    tags = ["server-limit-request-size: %d" % rnd.choice([40, 200, 3000])] if i % 7 == 3 else []
    shape_eps.append(ep("shape%d" % i, "POST", "/x/shape%d" % i, [arg("body", b, "body")], returns=r, tags=tags))
service("ShapeService", shape_eps)

ir = {"version": 1, "errors": [], "types": types, "services": services, "extensions": {}}
with open(os.path.join(HERE, "sim-ir.json"), "w") as f:
    json.dump(ir, f, indent=1, sort_keys=False)
    f.write("\n")

# -------------------------------------------------------------------- glue --
TYPEDEFS = {}
for t in types:
    k = t["type"]; d = t[k]; TYPEDEFS[d["typeName"]["name"]] = (k, d)

KEYWORDS = set("as break const continue crate else enum extern false fn for if impl in let loop match mod move mut pub ref return self static struct super trait true type unsafe use where while abstract async become box do final macro override priv typeof unsized virtual yield union dyn".split())
def snake(s):
    s = re.sub(r"(?<=[a-z0-9])([A-Z])", r"_\1", s).lower()
    return s + "_" if s in KEYWORDS else s

PRIM_RUST = {"STRING": "String", "INTEGER": "i32", "DOUBLE": "f64", "SAFELONG": "conjure_object::SafeLong",
             "BOOLEAN": "bool", "UUID": "conjure_object::Uuid", "RID": "conjure_object::ResourceIdentifier",
             "BEARERTOKEN": "conjure_object::BearerToken", "DATETIME": "conjure_object::DateTime<conjure_object::Utc>",
             "BINARY": "conjure_object::Bytes", "ANY": "conjure_object::Any"}
COPY_PRIMS = {"INTEGER", "DOUBLE", "SAFELONG", "BOOLEAN", "UUID", "DATETIME"}

def dealias(t):
    while t["type"] == "external": t = t["external"]["fallback"]
    while t["type"] == "reference":
        k, d = TYPEDEFS[t["reference"]["name"]]
        if k != "alias": break
        t = d["alias"]
    return t
def is_binary(t):
    t = dealias(t); return t["type"] == "primitive" and t["primitive"] == "BINARY"
def is_optional(t):
    t = dealias(t); return t["optional"]["itemType"] if t["type"] == "optional" else None
def is_double(t):
    t = dealias(t); return t["type"] == "primitive" and t["primitive"] == "DOUBLE"
def is_copy(t):
    k = t["type"]
    if k == "primitive": return t["primitive"] in COPY_PRIMS
    if k == "optional": return is_copy(t["optional"]["itemType"])
    if k == "reference":
        kk, d = TYPEDEFS[t["reference"]["name"]]
        return kk == "alias" and is_copy(d["alias"])
    if k == "external": return is_copy(t["external"]["fallback"])
    return False

def rust_type(t, key=False):
    k = t["type"]
    if k == "primitive":
        if key and t["primitive"] == "DOUBLE": return "conjure_object::DoubleKey"
        return PRIM_RUST[t["primitive"]]
    if k == "optional": return "Option<%s>" % rust_type(t["optional"]["itemType"])
    if k == "list": return "Vec<%s>" % rust_type(t["list"]["itemType"])
    if k == "set": return "std::collections::BTreeSet<%s>" % rust_type(t["set"]["itemType"], True)
    if k == "map": return "std::collections::BTreeMap<%s, %s>" % (rust_type(t["map"]["keyType"], True), rust_type(t["map"]["valueType"]))
    if k == "reference": return "sim_ir::" + t["reference"]["name"]
    if k == "external": return rust_type(t["external"]["fallback"], key)
    raise Exception(k)

def borrow(v, t):
    """mirrors Context::borrow_rust_type: expression turning an owned `v` into the generated client's argument"""
    k = t["type"]
    if k == "primitive":
        p = t["primitive"]
        if p == "STRING": return "&*%s" % v
        if p in ("ANY", "RID", "BEARERTOKEN", "BINARY"): return "&%s" % v
        return "%s.clone()" % v
    if k == "optional":
        inner = borrow("(*o)", t["optional"]["itemType"])
        return "%s.as_ref().map(|o| %s)" % (v, inner)
    if k == "list": return "&*%s" % v
    if k in ("set", "map"): return "&%s" % v
    if k == "reference":
        kk, d = TYPEDEFS[t["reference"]["name"]]
        if kk == "alias":
            return ("%s.clone()" % v) if is_copy(d["alias"]) else ("&%s" % v)
        return "&%s" % v
    if k == "external": return borrow(v, t["external"]["fallback"])
    raise Exception(k)

def upper_camel(s): return s[0].upper() + s[1:]

out = []
w = out.append
w("// @generated by ir/gen_ir.py — do not edit by hand.")
w("#![allow(unused_variables, unused_mut, clippy::all, non_snake_case)]")
w("use crate::glue::*;")
w("use crate::sim_ir;")
w("use conjure_http::private::Error;")
w("use conjure_http::client::{Service as _, AsyncService as _};")
w("")

# type list for the IR-driven generator impls
w("crate::ir_types!(%s);" % ", ".join(sorted(TYPEDEFS)))
w("")

def ret_kind(e):
    r = e.get("returns")
    if r is None: return "none"
    o = is_optional(r)
    if o is not None and is_binary(o): return "optbinary"
    if is_binary(r): return "binary"
    return "json"

flat = []
for si, s in enumerate(services):
    for ei, e in enumerate(s["endpoints"]):
        flat.append((len(flat), s, e))

# ---- handlers
for flavour in ("sync", "async"):
    for s in services:
        sname = s["serviceName"]["name"]
        trait = sname if flavour == "sync" else "Async" + sname
        wtr = "SimWriter" if flavour == "sync" else "SimAsyncWriter"
        has_i = any(is_binary(a["type"]) for e in s["endpoints"] for a in e["args"] if a["paramType"]["type"] == "body")
        has_o = any(ret_kind(e) in ("binary", "optbinary") for e in s["endpoints"])
        gens = ", ".join((["SimBody"] if has_i else []) + ([wtr] if has_o else []))
        w("impl sim_ir::%s%s for Handler {" % (trait, "<%s>" % gens if gens else ""))
        for e in s["endpoints"]:
            rk = ret_kind(e)
            if rk in ("binary", "optbinary"):
                w("    type %sBody = SimRespBody;" % upper_camel(e["endpointName"]))
        for e in s["endpoints"]:
            idx = [i for i, ss, ee in flat if ss is s and ee is e][0]
            params = []
            recs = []
            pre = []
            if e.get("auth"):
                params.append("auth_: conjure_object::BearerToken")
                recs.append('("auth_", bx(auth_))')
            for a in e["args"]:
                n = snake(a["argName"])
                if is_binary(a["type"]):
                    params.append("%s: SimBody" % n)
                    if flavour == "sync":
                        pre.append("let %s = BinVal::drain(%s);" % (n, n))
                    else:
                        pre.append("let %s = BinVal::drain_async(%s).await;" % (n, n))
                    recs.append('("%s", bx(%s))' % (a["argName"], n))
                else:
                    params.append("%s: %s" % (n, rust_type(a["type"])))
                    recs.append('("%s", bx(%s))' % (a["argName"], n))
            has_ctx = "server-request-context" in e["tags"]
            if has_ctx:
                params.append("request_context_: conjure_http::server::RequestContext<'_>")
                pre.append("let ctx_probe_ = ctx_probe(&request_context_); drop(request_context_);")
            rk = ret_kind(e)
            if rk == "none": rt = "()"
            elif rk == "json": rt = rust_type(e["returns"])
            elif rk == "binary": rt = "SimRespBody"
            else: rt = "Option<SimRespBody>"
            kw = "fn" if flavour == "sync" else "async fn"
            w("    %s %s(&self%s) -> Result<%s, Error> {" % (kw, snake(e["endpointName"]), "".join(", " + p for p in params), rt))
            for p in pre: w("        " + p)
            w("        let r = self.enter(%d, vec![%s]%s)?;" % (idx, ", ".join(recs), ", Some(ctx_probe_)" if has_ctx else ", None"))
            if rk == "none": w("        take_ret::<()>(r)")
            elif rk == "json": w("        take_ret::<%s>(r)" % rt)
            elif rk == "binary": w("        take_ret::<BinVal>(r).map(SimRespBody::from)")
            else: w("        take_ret::<Option<BinVal>>(r).map(|o| o.map(SimRespBody::from))")
            w("    }")
        w("}")
        w("")

# ---- endpoint lists
w("pub fn endpoints_blocking(h: &Handler, rt: &std::sync::Arc<conjure_http::server::ConjureRuntime>) -> Vec<Box<dyn conjure_http::server::Endpoint<SimBody, SimWriter> + Sync + Send>> {")
w("    use conjure_http::server::Service;")
w("    let mut v = Vec::new();")
for s in services:
    w("    v.extend(sim_ir::%sEndpoints::new(h.clone()).endpoints(rt));" % s["serviceName"]["name"])
w("    v")
w("}")
w("pub fn endpoints_async(h: &Handler, rt: &std::sync::Arc<conjure_http::server::ConjureRuntime>) -> Vec<conjure_http::server::BoxAsyncEndpoint<'static, SimBody, SimAsyncWriter>> {")
w("    use conjure_http::server::AsyncService;")
w("    let mut v = Vec::new();")
for s in services:
    w("    v.extend(sim_ir::Async%sEndpoints::new(h.clone()).endpoints(rt));" % s["serviceName"]["name"])
w("    v")
w("}")
w("")

# ---- generators
w("pub fn gen_args(ep: usize, t: &mut Tape, g: &GenKnobs) -> Vec<ArgVal> {")
w("    match ep {")
for idx, s, e in flat:
    items = []
    if e.get("auth"):
        items.append('ArgVal::new("auth_", bx(<conjure_object::BearerToken as Gen>::gen(t, &g.at(Kind::Auth, false))))')
    for a in e["args"]:
        kind = {"path": "Path", "query": "Query", "header": "Header", "body": "Body"}[a["paramType"]["type"]]
        safe = "true" if (a.get("safety") == "SAFE" or any(is_safe_marker(m) for m in a["markers"]) or a["tags"]) else "false"
        if is_binary(a["type"]):
            items.append('ArgVal::new("%s", bx(<BinVal as Gen>::gen(t, &g.at(Kind::%s, %s))))' % (a["argName"], kind, safe))
        else:
            items.append('ArgVal::new("%s", bx(<%s as Gen>::gen(t, &g.at(Kind::%s, %s))))' % (a["argName"], rust_type(a["type"]), kind, safe))
    w("        %d => vec![%s]," % (idx, ", ".join(items)))
w("        _ => unreachable!(),")
w("    }")
w("}")
w("pub fn gen_ret(ep: usize, t: &mut Tape, g: &GenKnobs) -> Box<dyn DynVal> {")
w("    match ep {")
for idx, s, e in flat:
    rk = ret_kind(e)
    if rk == "none": w("        %d => bx(())," % idx)
    elif rk == "json": w("        %d => bx(<%s as Gen>::gen(t, &g.at(Kind::Return, false)))," % (idx, rust_type(e["returns"])))
    elif rk == "binary": w("        %d => bx(<BinVal as Gen>::gen(t, &g.at(Kind::Return, false)))," % idx)
    else: w("        %d => bx(<Option<BinVal> as Gen>::gen(t, &g.at(Kind::Return, false)))," % idx)
w("        _ => unreachable!(),")
w("    }")
w("}")
w("")
# parse a JSON document into the endpoint's body / return type (reference construction for crafted documents)
w("pub fn body_from_json(ep: usize, doc: &str) -> Option<Box<dyn DynVal>> {")
w("    match ep {")
for idx, s, e in flat:
    b = [a for a in e["args"] if a["paramType"]["type"] == "body"]
    if b and not is_binary(b[0]["type"]):
        w("        %d => conjure_serde::json::client_from_str::<%s>(doc).ok().map(|v| bx(v))," % (idx, rust_type(b[0]["type"])))
w("        _ => None,")
w("    }")
w("}")
w("pub fn ret_from_json(ep: usize, doc: &str) -> Option<Box<dyn DynVal>> {")
w("    match ep {")
for idx, s, e in flat:
    if ret_kind(e) == "json":
        w("        %d => conjure_serde::json::client_from_str::<%s>(doc).ok().map(|v| bx(v))," % (idx, rust_type(e["returns"])))
w("        _ => None,")
w("    }")
w("}")
w("pub fn ret_default(ep: usize) -> Option<Box<dyn DynVal>> {")
w("    match ep {")
for idx, s, e in flat:
    rk = ret_kind(e)
    if rk == "json":
        d = dealias(e["returns"])
        if d["type"] in ("optional", "list", "set", "map"):
            w("        %d => Some(bx(<%s as Default>::default()))," % (idx, rust_type(e["returns"])))
    elif rk == "optbinary":
        w("        %d => Some(bx(Option::<BinVal>::None))," % idx)
    elif rk == "none":
        w("        %d => Some(bx(()))," % idx)
w("        _ => None,")
w("    }")
w("}")
w("pub fn val_to_json(ep_body_or_ret: (usize, bool), v: &dyn DynVal) -> Option<Vec<u8>> {")
w("    match ep_body_or_ret {")
for idx, s, e in flat:
    b = [a for a in e["args"] if a["paramType"]["type"] == "body"]
    if b and not is_binary(b[0]["type"]):
        w("        (%d, true) => v.as_any().downcast_ref::<%s>().and_then(|x| conjure_serde::json::to_vec(x).ok())," % (idx, rust_type(b[0]["type"])))
    if ret_kind(e) == "json":
        w("        (%d, false) => v.as_any().downcast_ref::<%s>().and_then(|x| conjure_serde::json::to_vec(x).ok())," % (idx, rust_type(e["returns"])))
w("        _ => None,")
w("    }")
w("}")
w("pub fn val_to_smile(ep_body_or_ret: (usize, bool), v: &dyn DynVal) -> Option<Vec<u8>> {")
w("    match ep_body_or_ret {")
for idx, s, e in flat:
    b = [a for a in e["args"] if a["paramType"]["type"] == "body"]
    if b and not is_binary(b[0]["type"]):
        w("        (%d, true) => v.as_any().downcast_ref::<%s>().and_then(|x| conjure_serde::smile::to_vec(x).ok())," % (idx, rust_type(b[0]["type"])))
    if ret_kind(e) == "json":
        w("        (%d, false) => v.as_any().downcast_ref::<%s>().and_then(|x| conjure_serde::smile::to_vec(x).ok())," % (idx, rust_type(e["returns"])))
w("        _ => None,")
w("    }")
w("}")
w("")

# ---- client calls
def call_body(idx, s, e, flavour):
    sname = s["serviceName"]["name"]
    cl = ("sim_ir::%sClient" if flavour == "sync" else "sim_ir::%sAsyncClient") % sname
    lines = []
    lines.append("            let c = %s::new(tr.clone());" % cl)
    callargs = []
    i = 0
    if e.get("auth"):
        lines.append("            let a%d: &conjure_object::BearerToken = args[%d].get();" % (i, i))
        callargs.append("a%d" % i); i += 1
    for a in e["args"]:
        if is_binary(a["type"]):
            lines.append("            let a%d: &BinVal = args[%d].get();" % (i, i))
            callargs.append("SimReqBody::new(tr, a%d)" % i)
        else:
            lines.append("            let a%d: &%s = args[%d].get();" % (i, rust_type(a["type"]), i))
            callargs.append(borrow("(*a%d)" % i, a["type"]))
        i += 1
    aw = "" if flavour == "sync" else ".await"
    rk = ret_kind(e)
    call = "c.%s(%s)%s" % (snake(e["endpointName"]), ", ".join(callargs), aw)
    if rk in ("none", "json"):
        lines.append("            %s.map(|r| bx(r))" % call)
    elif rk == "binary":
        if flavour == "sync":
            lines.append("            %s.map(|b| bx(BinVal::drain(b)))" % call)
        else:
            lines.append("            match %s { Ok(b) => Ok(bx(BinVal::drain_async(b).await)), Err(e) => Err(e) }" % call)
    else:
        if flavour == "sync":
            lines.append("            %s.map(|o| bx(o.map(BinVal::drain)))" % call)
        else:
            lines.append("            match %s { Ok(Some(b)) => Ok(bx(Some(BinVal::drain_async(b).await))), Ok(None) => Ok(bx(Option::<BinVal>::None)), Err(e) => Err(e) }" % call)
    return lines

w("pub fn call_blocking(tr: &SimTransport, ep: usize, args: &[ArgVal]) -> Result<Box<dyn DynVal>, Error> {")
w("    match ep {")
for idx, s, e in flat:
    w("        %d => {" % idx)
    for l in call_body(idx, s, e, "sync"): w(l)
    w("        }")
w("        _ => unreachable!(),")
w("    }")
w("}")
w("pub async fn call_async(tr: &SimTransport, ep: usize, args: &[ArgVal]) -> Result<Box<dyn DynVal>, Error> {")
w("    match ep {")
for idx, s, e in flat:
    w("        %d => {" % idx)
    for l in call_body(idx, s, e, "async"): w(l)
    w("        }")
w("        _ => unreachable!(),")
w("    }")
w("}")

with open(os.path.join(HERE, "..", "src", "glue_gen.rs"), "w") as f:
    f.write("\n".join(out) + "\n")
print("endpoints:", len(flat), "types:", len(types))
