#!/bin/bash
# scripts/run_all.sh [quick|thorough]  — every registered check on the current tree; summary line per property
cd /verif
TIER="${1:-quick}"
for P in C01 C04 C05 C06 C07 C09 C18 C19 C20; do
  S=$(date +%s); OUT=$(./check $P $TIER 2>&1); RC=$?; E=$(date +%s)
  echo "$P rc=$RC $((E-S))s $(echo "$OUT" | grep -c '^KNOWN-FINDING') known :: $(echo "$OUT" | grep '^done' | tr '\n' ' ')"
  [ $RC -ne 0 ] && echo "$OUT" | grep -E "VIOLATION|HARNESS" | head -5
done
