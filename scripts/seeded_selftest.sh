#!/bin/bash
# scripts/seeded_selftest.sh [tier] [id-glob]  — sensitivity self-test that never touches /repo:
# clones /repo's HEAD and /verif/sim into a scratch directory, and for every seeded/<id>/patch.diff applies it to the
# clone, rebuilds the harness against the clone and runs the property's check; each must exit 1 (violation found).
# Also runs every check once on the unpatched clone (must exit 0).  Removes the scratch directory at the end.
TIER=${1:-quick}; GLOB=${2:-*}
SCR=/var/tmp/verif-selftest; rm -rf $SCR; mkdir -p $SCR/ev $SCR/rp
export CARGO_NET_OFFLINE=true CARGO_TARGET_DIR=$SCR/target VERIF_EVIDENCE_DIR=$SCR/ev VERIF_REPLAY_DIR=$SCR/rp
git clone -q /repo $SCR/repo || exit 2
cp /repo/Cargo.lock $SCR/repo/ 2>/dev/null
rsync -a --exclude target /verif/sim/ $SCR/sim/
sed -i "s#/repo/#$SCR/repo/#g" $SCR/sim/Cargo.toml $SCR/sim/build.rs
gcc -shared -fPIC -O2 -o $SCR/interpose.so /verif/shim/interpose.c -ldl || exit 2
export VERIF_SHIM=$SCR/interpose.so VERIF_CLI=$SCR/cli-target/release/conjure-rust
build() { (cd $SCR/sim && cargo build --release --offline >$SCR/build.log 2>&1) || { echo "BUILD-FAILED"; tail -5 $SCR/build.log; return 1; }; }
build_cli() { cargo build --release --offline --manifest-path $SCR/repo/Cargo.toml -p conjure-rust --target-dir $SCR/cli-target >$SCR/cli.log 2>&1 || { echo "CLI-BUILD-FAILED"; return 1; }; }
BIN=$SCR/target/release/verif-sim
build || exit 2; build_cli || exit 2
echo "== unpatched clone"
for P in C01 C04 C05 C06 C07 C09 C18 C19 C20; do
  $BIN check $P $TIER >$SCR/out.txt 2>&1; RC=$?
  [ $RC -eq 0 ] && echo "clean   $P" || { echo "ALARM   $P rc=$RC"; grep -E "VIOLATION|HARNESS|kind=" $SCR/out.txt | head -4; }
done
CAUGHT=0; TOTAL=0; EXPECTED=0
for D in /verif/seeded/$GLOB; do
  ID=$(basename $D); P=${ID%%-*}; TOTAL=$((TOTAL+1))
  git -C $SCR/repo apply $D/patch.diff || { echo "NOAPPLY $ID"; continue; }
  if build && { [ "$P" != "C20" ] || build_cli; }; then
    $BIN check $P $TIER >$SCR/out.txt 2>&1; RC=$?
    if grep -q '"check_result": "NOT CAUGHT' $D/meta.json; then
      # recorded as not caught by this property's check (DESIGN.md section 12): exit 0 is what is expected
      [ $RC -eq 0 ] && { EXPECTED=$((EXPECTED+1)); echo "NOT-CAUGHT-AS-RECORDED  $ID"; } || echo "CHANGED  $ID rc=$RC (recorded as not caught)"
    elif [ $RC -eq 1 ]; then CAUGHT=$((CAUGHT+1)); echo "CAUGHT  $ID  $(grep -m1 '^  kind=' $SCR/out.txt | cut -c1-140)"; else echo "MISSED  $ID rc=$RC $(grep '^done' $SCR/out.txt | tr '\n' ' ')"; fi
  fi
  git -C $SCR/repo checkout -q -- .
done
echo "SELFTEST-RESULT caught=$CAUGHT of $TOTAL (recorded as not caught: $EXPECTED) tier=$TIER"
rm -rf $SCR
