#!/usr/bin/env python3
"""Rewrites the table between the seeded-table markers in DESIGN.md from seeded/*/meta.json."""
import json, glob, re
rows = []
for d in sorted(glob.glob('/verif/seeded/*')):
    m = json.load(open(d + '/meta.json'))
    name = d.rsplit('/', 1)[1]
    summ = re.sub(r'\s+', ' ', m.get('summary', ''))
    if len(summ) > 260: summ = summ[:257] + '…'
    needs = re.sub(r'\s+', ' ', m.get('needs_to_manifest', ''))
    if len(needs) > 200: needs = needs[:197] + '…'
    res = re.sub(r'\s+', ' ', m.get('check_result', '?'))
    rows.append('| `%s` | %s | %s | %s |' % (name, summ.replace('|', '\\|'), needs.replace('|', '\\|'), res.replace('|', '\\|')))
table = '| seeded change | what it does | needs | result of the registered quick check |\n|---|---|---|---|\n' + '\n'.join(rows)
s = open('/verif/DESIGN.md').read()
b, e = '<!-- seeded-table-begin -->', '<!-- seeded-table-end -->'
if b in s:
    s = s[:s.index(b) + len(b)] + '\n' + table + '\n' + s[s.index(e):]
else:
    s = s.replace('SEEDED_TABLE', b + '\n' + table + '\n' + e)
open('/verif/DESIGN.md', 'w').write(s)
print(len(rows), 'rows')
