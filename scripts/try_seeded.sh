#!/bin/bash
# scripts/try_seeded.sh <patch.diff> <tier> <property>...   — applies a seeded change to /repo, runs the named checks, undoes it.
# Prints one line per property: CAUGHT / MISSED / HARNESS-ERROR.  Never leaves /repo modified.
set -u
PATCH="$(readlink -f "$1")"; TIER="$2"; shift 2
cd /repo || exit 2
if ! git diff --quiet; then echo "refusing: /repo has uncommitted changes" >&2; exit 2; fi
if ! git apply --check "$PATCH" 2>/dev/null; then echo "patch does not apply: $PATCH" >&2; exit 2; fi
git apply "$PATCH"
# evidence of a run against a changed tree must not land in /verif/evidence
export VERIF_EVIDENCE_DIR="$(mktemp -d /var/tmp/verif-try-ev.XXXXXX)"
trap 'git -C /repo checkout -- . >/dev/null 2>&1; rm -rf "$VERIF_EVIDENCE_DIR"' EXIT
cd /verif
for P in "$@"; do
  OUT="$(mktemp /var/tmp/verif-try.XXXXXX)"
  ./check "$P" "$TIER" >"$OUT" 2>&1; RC=$?
  case $RC in
    1) echo "CAUGHT  $P  $(grep -m1 '^  kind=' "$OUT" | cut -c1-260)";;
    0) echo "MISSED  $P  $(grep -m1 '^done' "$OUT")";;
    *) echo "HARNESS-ERROR $P rc=$RC $(tail -3 "$OUT" | tr '\n' ' ' | cut -c1-300)";;
  esac
  rm -f "$OUT"
done
