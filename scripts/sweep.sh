#!/bin/bash
# scripts/sweep.sh <first_seed> <last_seed> [tier]  — false-alarm sweep of every check on the unchanged tree at 16 and at 3 workers.
# Writes evidence/replays to a scratch directory (never /verif/evidence).  Uses the already built binaries in /verif/sim/target.
A=${1:-1}; B=${2:-32}; TIER=${3:-quick}
export VERIF_EVIDENCE_DIR=/var/tmp/verif-sweep/evidence VERIF_REPLAY_DIR=/var/tmp/verif-sweep/replays
mkdir -p $VERIF_EVIDENCE_DIR $VERIF_REPLAY_DIR /var/tmp/verif-sweep/bin
# private copies: later rebuilds in /verif/sim/target (e.g. with a seeded change applied) must not leak into the sweep
cp /verif/sim/target/release/verif-sim /verif/sim/target/interpose.so /verif/sim/target/repo-cli/release/conjure-rust /var/tmp/verif-sweep/bin/ || exit 2
export VERIF_CLI=/var/tmp/verif-sweep/bin/conjure-rust VERIF_SHIM=/var/tmp/verif-sweep/bin/interpose.so
BIN=/var/tmp/verif-sweep/bin/verif-sim
BAD=0
for SEED in $(seq $A $B); do
  for W in 16 3; do
    for P in C01 C04 C05 C06 C07 C09 C18 C19 C20; do
      OUT=$(VERIF_SEED=$SEED VERIF_WORKERS=$W $BIN check $P $TIER 2>&1); RC=$?
      if [ $RC -ne 0 ]; then BAD=$((BAD+1)); echo "ALARM seed=$SEED workers=$W $P rc=$RC"; echo "$OUT" | grep -E "VIOLATION|HARNESS|kind=" | head -6; fi
    done
  done
  echo "seed $SEED done (alarms so far: $BAD)"
done
echo "SWEEP-RESULT seeds=$A..$B tier=$TIER alarms=$BAD"
rm -rf /var/tmp/verif-sweep
